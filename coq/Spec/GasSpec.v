(* Specification side of C14: the gas formulas of the Yellow Paper / EIPs on unbounded
   integers, written from the EIP texts and independently of Model/GasCalc.v.
   Forks are the SpecId values (Gen.Specs.spec); their chronological order is written out here
   ([rank]); CONSTANTINOPLE carries the PETERSBURG rules (EIP-1283 was withdrawn before
   activation; revm's enum says "CONSTANTINOPLE is overwritten with PETERSBURG").

   EIP-150  (TANGERINE)       IO repricing: SLOAD 200, EXTCODECOPY 700, CALL 700, SELFDESTRUCT 5000 (+25000 new account)
   EIP-160  (SPURIOUS_DRAGON) EXP 10 + 50/byte
   EIP-161  (SPURIOUS_DRAGON) new-account surcharge only when value is transferred to a dead account
   EIP-2    (HOMESTEAD)       contract-creation transaction 53000
   EIP-1884 (ISTANBUL)        SLOAD 800
   EIP-2028 (ISTANBUL)        non-zero calldata byte 16
   EIP-2200 (ISTANBUL)        SSTORE net gas metering (structure of EIP-1283), stipend guard (EIP-1706)
   EIP-2929 (BERLIN)          cold 2600 / 2100, warm 100, SSTORE reset 5000-2100
   EIP-2930 (BERLIN)          access list 2400 / address, 1900 / key
   EIP-3529 (LONDON)          SSTORE clears refund 4800
   EIP-3860 (SHANGHAI)        initcode 2 / word
   EIP-6780 (CANCUN)          SELFDESTRUCT semantics (no gas change)
   EIP-7623 (PRAGUE)          calldata floor 10 / token
   EIP-7702 (PRAGUE)          25000 / authorization, delegation target access cost *)
From Coq Require Import ZArith List Bool.
From RevmV Require Import Gen.Specs.
Import ListNotations.
Local Open Scope Z_scope.

(* chronological rank of the forks, written by hand *)
Definition rank (s : spec) : Z :=
  match s with
  | FRONTIER => 0 | FRONTIER_THAWING => 1 | HOMESTEAD => 2 | DAO_FORK => 3 | TANGERINE => 4
  | SPURIOUS_DRAGON => 5 | BYZANTIUM => 6 | CONSTANTINOPLE => 7 | PETERSBURG => 8 | ISTANBUL => 9
  | MUIR_GLACIER => 10 | BERLIN => 11 | LONDON => 12 | ARROW_GLACIER => 13 | GRAY_GLACIER => 14
  | MERGE => 15 | SHANGHAI => 16 | CANCUN => 17 | PRAGUE => 18 | OSAKA => 19 | LATEST => 20
  end.
(* fork [s] includes the changes of fork [f] *)
Definition since (s f : spec) : bool := rank f <=? rank s.

(* ---------- per-word formulas ---------- *)
Definition words (n : Z) : Z := (n + 31) / 32.                   (* ceil(n / 32) *)
Definition copy_cost (n : Z) : Z := 3 + 3 * words n.             (* G_verylow + G_copy * words *)
Definition keccak256_cost (n : Z) : Z := 30 + 6 * words n.       (* G_keccak256 + G_keccak256word * words *)
Definition create2_cost (n : Z) : Z := 32000 + 6 * words n.      (* EIP-1014 *)
Definition initcode_cost (n : Z) : Z := 2 * words n.             (* EIP-3860 *)
Definition log_cost (topics n : Z) : Z := 375 + 8 * n + 375 * topics.
Definition account_access_cost (cold : bool) : Z := if cold then 2600 else 100.   (* EIP-2929 *)
Definition extcodecopy_cost (s : spec) (n : Z) (cold : bool) : Z :=
  (if since s BERLIN then account_access_cost cold
   else if since s TANGERINE then 700 else 20) + 3 * words n.
Definition cost_per_word (n multiple : Z) : Z := multiple * words n.

(* EXP: 10, plus 10 (50 from EIP-160) per byte of the exponent *)
Definition byte_len (e : Z) : Z := if e =? 0 then 0 else Z.log2 e / 8 + 1.
Definition exp_cost (s : spec) (e : Z) : Z :=
  10 + (if since s SPURIOUS_DRAGON then 50 else 10) * byte_len e.

(* memory: C_mem(a) = G_memory * a + a^2 / 512 *)
Definition memory_cost (w : Z) : Z := 3 * w + w * w / 512.

(* ---------- SLOAD ---------- *)
Definition sload_cost (s : spec) (cold : bool) : Z :=
  if since s BERLIN then (if cold then 2100 else 100)
  else if since s ISTANBUL then 800
  else if since s TANGERINE then 200
  else 50.

(* ---------- SSTORE ---------- *)
(* EIP-2200 with its parameters; returns (gas, refund delta).
   original = value at the start of the transaction, current = present value, new = value written *)
Definition net_metered (SLOAD_GAS SSTORE_SET_GAS SSTORE_RESET_GAS CLEARS : Z)
                       (original current new : Z) : Z * Z :=
  if current =? new then (SLOAD_GAS, 0)                                    (* no-op *)
  else if original =? current then                                        (* clean slot *)
    if original =? 0 then (SSTORE_SET_GAS, 0)
    else (SSTORE_RESET_GAS, if new =? 0 then CLEARS else 0)
  else                                                                    (* dirty slot *)
    let r1 := if original =? 0 then 0
              else (if current =? 0 then - CLEARS else 0) + (if new =? 0 then CLEARS else 0) in
    let r2 := if original =? new then
                (if original =? 0 then SSTORE_SET_GAS - SLOAD_GAS else SSTORE_RESET_GAS - SLOAD_GAS)
              else 0 in
    (SLOAD_GAS, r1 + r2).

(* before net metering: 20000 when a zero slot becomes non-zero, 5000 otherwise; refund 15000
   when a non-zero slot becomes zero *)
Definition legacy_sstore (current new : Z) : Z * Z :=
  (if (current =? 0) && negb (new =? 0) then 20000 else 5000,
   if negb (current =? 0) && (new =? 0) then 15000 else 0).

Definition sstore_gas_refund (s : spec) (original current new : Z) (cold : bool) : Z * Z :=
  if since s BERLIN then
    let '(g, r) := net_metered 100 20000 (5000 - 2100)
                     (if since s LONDON then 4800 else 15000) original current new in
    (g + (if cold then 2100 else 0), r)
  else if since s ISTANBUL then net_metered 800 20000 5000 15000 original current new
  else legacy_sstore current new.

(* None = out of gas by the stipend rule of EIP-2200/EIP-1706 (gas left <= 2300) *)
Definition sstore_cost (s : spec) (original current new gas_left : Z) (cold : bool) : option Z :=
  if since s ISTANBUL && (gas_left <=? 2300) then None
  else Some (fst (sstore_gas_refund s original current new cold)).
Definition sstore_refund (s : spec) (original current new : Z) : Z :=
  snd (sstore_gas_refund s original current new false).

(* ---------- SELFDESTRUCT ---------- *)
(* target_exists: EIP-150 "exists", from EIP-161 "not dead" *)
Definition selfdestruct_cost (s : spec) (had_value target_exists cold : bool) : Z :=
  (if since s TANGERINE then 5000 else 0)
  + (if since s TANGERINE then
       (if since s SPURIOUS_DRAGON
        then (if had_value && negb target_exists then 25000 else 0)
        else (if negb target_exists then 25000 else 0))
     else 0)
  + (if since s BERLIN && cold then 2600 else 0).

(* ---------- CALL family ---------- *)
(* delegate: None = target has no EIP-7702 delegation; Some c = delegation target cold? *)
Definition call_access_cost (s : spec) (cold : bool) (delegate : option bool) : Z :=
  if since s BERLIN then
    account_access_cost cold + match delegate with Some c => account_access_cost c | None => 0 end
  else if since s TANGERINE then 700 else 40.
(* is_empty: the callee does not exist (before EIP-161) / is dead (from EIP-161) *)
Definition call_cost (s : spec) (transfers_value cold : bool) (delegate : option bool)
                     (is_empty : bool) : Z :=
  call_access_cost s cold delegate
  + (if transfers_value then 9000 else 0)
  + (if since s SPURIOUS_DRAGON
     then (if is_empty && transfers_value then 25000 else 0)
     else (if is_empty then 25000 else 0)).

(* ---------- transaction intrinsic gas and floor ---------- *)
Definition zero_bytes (data : list Z) : Z := Z.of_nat (length (filter (fun b => b =? 0) data)).
Definition nonzero_bytes (data : list Z) : Z := Z.of_nat (length (filter (fun b => negb (b =? 0)) data)).
Definition sum_list (l : list Z) : Z := fold_right Z.add 0 l.

(* EIP-7623 tokens: zero bytes + 4 * non-zero bytes (before EIP-2028: 68/4 = 17 per non-zero byte) *)
Definition tokens (data : list Z) (istanbul : bool) : Z :=
  zero_bytes data + (if istanbul then 4 else 17) * nonzero_bytes data.

(* access_keys: one entry per access-list address = number of its storage keys *)
Definition intrinsic_gas (s : spec) (data : list Z) (is_create : bool) (access_keys : list Z)
                         (auths : Z) : Z :=
  21000
  + 4 * zero_bytes data + (if since s ISTANBUL then 16 else 68) * nonzero_bytes data
  + (if is_create && since s HOMESTEAD then 32000 else 0)
  + (if since s BERLIN then 2400 * Z.of_nat (length access_keys) + 1900 * sum_list access_keys else 0)
  + (if is_create && since s SHANGHAI then 2 * words (Z.of_nat (length data)) else 0)
  + (if since s PRAGUE then 25000 * auths else 0).

Definition floor_cost (tokens : Z) : Z := 21000 + 10 * tokens.
Definition floor_gas (s : spec) (data : list Z) : Z :=
  if since s PRAGUE then floor_cost (tokens data true) else 0.
