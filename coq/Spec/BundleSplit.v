(* C18: which split points of a history are clean.
   A split is clean when no account of the second part starts in a destroyed status (the second
   bundle is not built on a cache that already destroyed the account during the first part). *)
From stdpp Require Import gmap.
From Coq Require Import ZArith.
From RevmV Require Import Model.Bundle Spec.BundleSpec Spec.BundleHist.
Local Open Scope Z_scope.

Fixpoint starts_destroyed (seen : list Z) (l : list (Z * tacc)) : bool :=
  match l with
  | [] => false
  | (a, t) :: r =>
      if existsb (Z.eqb a) seen then starts_destroyed seen r
      else was_destroyed (t_pstatus t) || starts_destroyed (a :: seen) r
  end.
Definition CleanSplit (g2 : list (list txout)) : Prop := starts_destroyed [] (flat g2) = false.
