(* The status machine of account_status.rs as a finite table, built from the hand-written
   functions of Model/AcctStatus.v in the reflector's cell order and encoding. Props/C15.v proves
   it equal to the table reflected from the compiled code (Gen/StatusTables.v). *)
From RevmV Require Import Model.AcctStatus.
Local Open Scope Z_scope.

Definition zs (s : status) : Z := status_to_Z s.
Definition zb (b : bool) : Z := if b then 1 else 0.

(* result of one cell: outer None = not a cell, inner None = the code panics *)
Definition spec_cell (f : Z) (args : list Z) : option (option Z) :=
  match f, args with
  | 0, [i] => option_map (fun s => Some (zs (on_created s))) (status_of_Z i)
  | 1, [i; b] => option_map (fun s => Some (zs (on_changed s (b =? 1)))) (status_of_Z i)
  | 2, [i] => option_map (fun s => Some (zs (on_selfdestructed s))) (status_of_Z i)
  | 3, [i] => option_map (fun s => option_map zs (on_touched_empty_post_eip161 s)) (status_of_Z i)
  | 4, [i; b] => option_map (fun s => option_map (fun r => match r with Some t => zs t | None => 8 end)
                                              (on_touched_created_pre_eip161 s (b =? 1))) (status_of_Z i)
  | 5, [i; j] => match status_of_Z i, status_of_Z j with
                 | Some s, Some o => Some (Some (zs (transition s o)))
                 | _, _ => None
                 end
  | 6, [i] => option_map (fun s => Some (zb (is_not_modified s))) (status_of_Z i)
  | 7, [i] => option_map (fun s => Some (zb (was_destroyed s))) (status_of_Z i)
  | 8, [i] => option_map (fun s => Some (zb (is_storage_known s))) (status_of_Z i)
  | 9, [i] => option_map (fun s => Some (zb (is_modified_and_not_destroyed s))) (status_of_Z i)
  | _, _ => None
  end.

Definition cell_of (f : Z) (args : list Z) : Z * list Z * option Z :=
  (f, args, match spec_cell f args with Some r => r | None => None end).

Definition cells_of_status (s : status) : list (Z * list Z * option Z) :=
  let i := zs s in
  [cell_of 0 [i]; cell_of 1 [i; 0]; cell_of 1 [i; 1]; cell_of 2 [i]; cell_of 3 [i];
   cell_of 4 [i; 0]; cell_of 4 [i; 1]]
  ++ map (fun o => cell_of 5 [i; zs o]) all_status
  ++ [cell_of 6 [i]; cell_of 7 [i]; cell_of 8 [i]; cell_of 9 [i]].

Definition spec_status_cells : list (Z * list Z * option Z) := flat_map cells_of_status all_status.
