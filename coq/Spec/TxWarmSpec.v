(* Which addresses and storage slots are already accessed when the first instruction of a
   transaction runs, and what an access costs. Written from the EIPs as a rule list, independently
   of the handler code (crates/revm/src/handler/mainnet/pre_execution.rs, evm.rs, evm_context.rs):

     EIP-2929  accessed_addresses starts with tx.sender, tx.to (or the address being created by a
               creation transaction) and all precompiles of the fork; accessed_storage_keys empty
     EIP-2930  every address and every (address, key) of the access list is added
     EIP-3651  the COINBASE address is added (from Shanghai)
     EIP-2935  nothing: the final EIP (and the Prague execution specification) does not add the
               history storage contract to the accessed addresses; an early draft did, and the tree
               still pre-warmed the draft's address until fix "history storage contract is not
               pre-warmed" (a PRAGUE BALANCE of that address was charged 100 instead of 2600)
     EIP-7702  (from Prague) for every authorization tuple that passes the chain-id, nonce-range and
               signature checks the authority is added (step 4, before the code / nonce checks);
               if tx.to carries a delegation designation after the list has been processed, the
               delegation target is added

   The result is an [asets] of Spec/AccessSpec.v: [tx_initial_sets tx = initial_sets (tx_prewarmed tx) al]. *)
From RevmV Require Import Base.Word Model.Host Spec.AccessSpec Spec.GateSpec.
Local Open Scope Z_scope.

(* EIP-2929 prices *)
Definition COLD_ACCOUNT_ACCESS_COST := 2600.
Definition COLD_SLOAD_COST := 2100.
Definition WARM_STORAGE_READ_COST := 100.
Definition account_access_cost (is_cold : bool) : Z :=
  if is_cold then COLD_ACCOUNT_ACCESS_COST else WARM_STORAGE_READ_COST.
Definition sload_access_cost (is_cold : bool) : Z :=
  if is_cold then COLD_SLOAD_COST else WARM_STORAGE_READ_COST.

(* EIP-2935 history storage contract at the address of the early devnet this tree's constant
   follows (crates/primitives/src/constants.rs BLOCKHASH_STORAGE_ADDRESS). The final EIP-2935
   deploys the contract at 0x0000F90827F1C53a10cb7A02335B175320002935. Neither is pre-warmed; the
   constant is kept because the harness probes both addresses. *)
Definition HISTORY_STORAGE_ADDRESS : Z := 0x25a219378dad9b3503c8268c9ca836a52427a4fb.

(* what EIP-7702 needs to know about an account: nonce and kind of code *)
Inductive codek := CNone | CCode | CDeleg (t : Z).
Definition accts := list (Z * (Z * codek)).
Fixpoint acct_of (m : accts) (a : Z) : Z * codek :=
  match m with [] => (0, CNone) | (x, v) :: r => if x =? a then v else acct_of r a end.

(* authorization tuple; [au_authority] is the result of the signature recovery *)
Record auth := mkAuth { au_chain : Z; au_addr : Z; au_nonce : Z; au_authority : option Z }.

Record txw := mkTxW {
  tw_spec : Z;                      (* SpecId discriminant *)
  tw_chain : Z;                     (* chain id of the chain *)
  tw_sender : Z;
  tw_is_create : bool;
  tw_dest : Z;                      (* tx.to, or the address being created *)
  tw_coinbase : Z;
  tw_al : list (Z * list Z);        (* EIP-2930 access list *)
  tw_auths : list auth;             (* EIP-7702 authorization list *)
  tw_accts : accts                  (* pre-state nonce / code kind of the accounts involved; others (0, CNone) *)
}.

(* EIP-7702 "Behavior", one tuple; state = (authorities added to accessed_addresses, accounts) *)
Definition auth_step (chain : Z) (st : list Z * accts) (au : auth) : list Z * accts :=
  let '(warm, m) := st in
  (* 1. chain id is 0 or the chain's id *)
  if negb ((au_chain au =? 0) || (au_chain au =? chain)) then st else
  (* 2. nonce < 2^64 - 1 *)
  if 2 ^ 64 - 1 <=? au_nonce au then st else
  (* 3. authority = ecrecover(...) *)
  match au_authority au with
  | None => st
  | Some a =>
      (* 4. add authority to accessed_addresses *)
      let warm' := a :: warm in
      let '(n, c) := acct_of m a in
      (* 5. code of authority is empty or a delegation *)
      match c with
      | CCode => (warm', m)
      | _ =>
        (* 6. nonce of authority equals the tuple's nonce *)
        if negb (n =? au_nonce au) then (warm', m) else
        (* 8. set (or clear) the delegation; 9. increase the nonce *)
        (warm', (a, (n + 1, if au_addr au =? 0 then CNone else CDeleg (au_addr au))) :: m)
      end
  end.

Definition prague (tx : txw) : bool := enabled (tw_spec tx) PRAGUE.

(* the sender's nonce is incremented before the list is processed (a set-code transaction is
   never a creation) *)
Definition accts_at_auth (tx : txw) : accts :=
  let '(n, c) := acct_of (tw_accts tx) (tw_sender tx) in (tw_sender tx, (n + 1, c)) :: tw_accts tx.

Definition tx_after_auths (tx : txw) : list Z * accts :=
  if prague tx then fold_left (auth_step (tw_chain tx)) (tw_auths tx) ([], accts_at_auth tx)
  else ([], tw_accts tx).

(* delegation of an account while the transaction executes (designations are only written by
   the authorization list, before execution) *)
Definition deleg_of (tx : txw) (a : Z) : option Z :=
  if prague tx then
    match snd (acct_of (snd (tx_after_auths tx)) a) with CDeleg t => Some t | _ => None end
  else None.

Definition opt_is (o : option Z) (a : Z) : bool := match o with Some t => a =? t | None => false end.

Definition tx_prewarmed (tx : txw) (a : Z) : bool :=
     (a =? tw_sender tx)                                                   (* EIP-2929 *)
  || (a =? tw_dest tx)                                                     (* EIP-2929 *)
  || is_precompile (tw_spec tx) a                                          (* EIP-2929 *)
  || (enabled (tw_spec tx) SHANGHAI && (a =? tw_coinbase tx))              (* EIP-3651 *)
  || (prague tx && mem_z (fst (tx_after_auths tx)) a)                      (* EIP-7702 authorities *)
  || (prague tx && negb (tw_is_create tx) && opt_is (deleg_of tx (tw_dest tx)) a). (* EIP-7702 target of tx.to *)

Definition tx_initial_sets (tx : txw) : asets := initial_sets (tx_prewarmed tx) (tw_al tx).
