(* The accessed-set specification (Spec/AccessSpec.v) read along the execution trace of a whole
   transaction: the events an inspector sees, in execution order, and for each event the cold /
   warm answers the specification expects, hence the exact EIP-2929 charge.

   [trace_run] is the oracle used on real transactions (Corr/C34t.v). [trace_hops] / [trace_anns]
   translate a trace into a journaled-state operation history; Proofs/AccessTraceProofs.v proves
   that [trace_run] is [spec_run] on that history, so the refinement theorem of Props/C34.v and
   the whole-transaction oracle speak about one specification. *)
From RevmV Require Import Base.Word Model.Host Spec.AccessSpec Spec.TxWarmSpec.
Local Open Scope Z_scope.

Inductive tev :=
(* fixed-price account probes BALANCE / EXTCODESIZE / EXTCODEHASH / EXTCODECOPY of 0 bytes:
   opcode, address operand, gas left before the step, gas charged by the step,
   result (0 = continued, 1 = the step ran out of gas, 2 = charge not fixed: EXTCODECOPY of a
   non-empty range, the access is replayed but the charge is not judged) *)
| TAcct (op a gas charged res : Z)
(* SLOAD: storage address of the executing frame, key, gas before, charged, result *)
| TSload (a k gas charged res : Z)
(* CALL / CALLCODE / DELEGATECALL / STATICCALL that reached the host: callee operand.
   [checked]: no value, no memory growth - then [charged] = gas of the step minus the gas handed
   to the callee is exactly the access charge (callee and, if it delegates, its target) *)
| TCall (op a : Z) (checked : bool) (charged : Z)
(* SELFDESTRUCT that completed: executing address, beneficiary *)
| TSelfdestruct (self t : Z)
(* SSTORE that reached the host: storage address, key, value *)
| TSstore (a k v : Z)
(* a message call begins (transaction level or after a TCall) *)
| TOpen
(* a creation begins: address being created; [reached]: depth, balance and nonce checks passed
   (EIP-2929: the address is then added to accessed_addresses before the init code runs, and
   stays there when the creation fails) *)
| TCreate (a : Z) (reached : bool)
(* the innermost open call / creation ends; [ok] = its changes are kept *)
| TClose (ok : bool).

Definition tstate := (asets * list asets)%type.

(* one event: new sets / snapshots and the specification's is_cold answers *)
Definition trace_step (dl : Z -> option Z) (ws : tstate) (e : tev) : tstate * list bool :=
  let '(w, stk) := ws in
  match e with
  | TAcct _ a _ _ _ => let '(w1, c) := acc_access w a in ((w1, stk), [c])
  | TSload a k _ _ _ => let '(w1, c) := slot_access w a k in ((w1, stk), [c])
  | TCall _ a _ _ =>
      let '(w1, c) := acc_access w a in
      match dl a with
      | Some t => let '(w2, c2) := acc_access w1 t in ((w2, stk), [c; c2])
      | None => ((w1, stk), [c])
      end
  | TSelfdestruct _ t => let '(w1, c) := acc_access w t in ((w1, stk), [c])
  | TSstore a k _ => let '(w1, c) := slot_access w a k in ((w1, stk), [c])
  | TOpen => ((w, w :: stk), [])
  | TCreate a reached =>
      if reached then let '(w1, c) := acc_access w a in ((w1, w1 :: stk), [c]) else ((w, w :: stk), [])
  | TClose ok =>
      match stk with
      | w0 :: r => ((if ok then w else w0, r), [])
      | [] => ((w, []), [])
      end
  end.

Fixpoint trace_run (dl : Z -> option Z) (ws : tstate) (tr : list tev) : tstate * list (list bool) :=
  match tr with
  | [] => (ws, [])
  | e :: r => let '(ws1, a) := trace_step dl ws e in
              let '(ws2, ar) := trace_run dl ws1 r in (ws2, a :: ar)
  end.

(* ------------------------------------------------------------------ the charge of an event *)
Definition charge_ok (res gas charged expect : Z) : bool :=
  if res =? 0 then charged =? expect          (* the step completed: charged exactly this *)
  else if res =? 1 then gas <? expect         (* out of gas: only if the gas left did not cover it *)
  else true.

Definition event_ok (e : tev) (ans : list bool) : bool :=
  match e, ans with
  | TAcct _ _ gas charged res, [c] => charge_ok res gas charged (account_access_cost c)
  | TSload _ _ gas charged res, [c] => charge_ok res gas charged (sload_access_cost c)
  | TCall _ _ checked charged, [c] => negb checked || (charged =? account_access_cost c)
  | TCall _ _ checked charged, [c; c2] =>
      negb checked || (charged =? account_access_cost c + account_access_cost c2)
  | TSelfdestruct _ _, [_] | TSstore _ _ _, [_] | TOpen, [] | TCreate _ _, _ | TClose _, [] => true
  | _, _ => false
  end.

Fixpoint events_ok (tr : list tev) (ans : list (list bool)) : bool :=
  match tr, ans with
  | [], [] => true
  | e :: r, a :: ar => event_ok e a && events_ok r ar
  | _, _ => false
  end.

(* frames are opened and closed like brackets *)
Fixpoint balanced (depth : Z) (tr : list tev) : bool :=
  match tr with
  | [] => depth =? 0
  | (TOpen | TCreate _ _) :: r => balanced (depth + 1) r
  | TClose _ :: r => (0 <? depth) && balanced (depth - 1) r
  | _ :: r => balanced depth r
  end.

(* ------------------------------------------------------------------ translation to histories *)
Definition hops_of (e : tev) : list hop :=
  match e with
  | TAcct _ a _ _ _ => [HLoad a]
  | TSload a k _ _ _ => [HSload a k]
  | TCall _ a _ _ => [HLoadDelegated a]
  | TSelfdestruct s t => [HSelfdestruct s t]
  | TSstore a k v => [HSstore a k v]
  | TOpen => [HCheckpoint]
  | TCreate a reached => if reached then [HLoad a; HCheckpoint] else [HCheckpoint]
  | TClose ok => if ok then [HCommit] else [HRevert]
  end.
Definition anns_of (dl : Z -> option Z) (e : tev) : list ann :=
  match e with
  | TCall _ a _ _ => [mkAnn (dl a) false]
  | TCreate _ true => [mkAnn None false; mkAnn None false]
  | _ => [mkAnn None false]
  end.
Fixpoint trace_hops (tr : list tev) : list hop :=
  match tr with [] => [] | e :: r => hops_of e ++ trace_hops r end.
Fixpoint trace_anns (dl : Z -> option Z) (tr : list tev) : list ann :=
  match tr with [] => [] | e :: r => anns_of dl e ++ trace_anns dl r end.
