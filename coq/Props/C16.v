(* C16 - applying the bundle's plain-state changeset to the pre-history plain state yields the
   post-history plain state, for both OriginalValuesKnown settings.
   Only statements; proofs live in Proofs/BundleProofs.v. *)
From stdpp Require Import gmap.
From Coq Require Import ZArith.
From RevmV Require Import Model.Bundle Spec.BundleSpec Spec.BundleHist Proofs.BundleProofs Proofs.BundleWitness.
Local Open Scope Z_scope.

(* The full-strength statement (DESIGN.md Appendix C).  A history is a list of merge groups of
   transactions (the grouping is the merge schedule), HistOK = plain_wf p0 and TransOK for every
   transition.  It is NOT proved in full: see C16_changeset_correct_partial for what is missing. *)
Definition C16_statement : Prop :=
  forall (p0 : plain) (groups : list (list txout)) (retain known : bool),
    HistOK p0 groups ->
    exists b, bundle_of retain groups = Some b /\
      plain_equiv (apply_changeset (to_plain_state b known) p0) (plain_after p0 groups) /\
      contracts_cover (to_plain_state b known) p0 (plain_after p0 groups).

(* Final step, for every bundle whatsoever: if each account entry of the bundle is related to
   (pre-state, current state) by the bundle invariant [acct_inv] (info = current info; an info that
   equals original_info is the pre-state info; every slot reads as its present value, or 0 if the
   status says destroyed, or the pre-state value; an unchanged-looking slot of a not-destroyed
   account has the pre-state value), then the changeset applied to the pre-state is the current
   state - with original values declared known or not. *)
Theorem C16_changeset_of_invariant :
  forall (b : bundle) (p0 p : plain) (known : bool),
    bundle_inv b p0 p -> plain_equiv (apply_changeset (to_plain_state b known) p0) p.
Proof. exact changeset_of_inv. Qed.

Theorem C16_invariant_empty_bundle : forall p0, bundle_inv bundle_empty p0 p0.
Proof. exact bundle_inv_empty. Qed.

(* PARTIAL: the full statement with the preservation of the invariant as a hypothesis.  Missing:
   HistOK p0 groups -> bundle_of retain groups = Some b -> bundle_inv b p0 (plain_after p0 groups),
   i.e. TransitionAccount::update keeps the merged transition consistent with the plain states at
   the ends of the group, and BundleAccount::update_and_create_revert preserves acct_inv for the
   bundle statuses {absent, InMemoryChange, Changed, Destroyed, DestroyedChanged, DestroyedAgain} x
   transition statuses {InMemoryChange, Changed, Destroyed, DestroyedChanged, DestroyedAgain} (no
   cell proved), and the absence of `unreachable!` panics; contracts_cover.  These are covered by
   the correspondence run only (model = code and oracle on every generated history). *)
Theorem C16_changeset_correct_partial :
  forall (p0 : plain) (groups : list (list txout)) (retain known : bool) (b : bundle),
    bundle_of retain groups = Some b ->
    bundle_inv b p0 (plain_after p0 groups) ->
    plain_equiv (apply_changeset (to_plain_state b known) p0) (plain_after p0 groups).
Proof. intros p0 groups retain known b _ H. apply changeset_of_inv, H. Qed.

(* non-vacuity: HistOK is satisfiable by non-trivial histories (creation, write back to the
   original value, touch of an empty account, destroy / re-create, create+destroy in one group),
   and the model builds a bundle for them *)
Example C16_histok_satisfiable :
  HistOK p5 w5 /\ is_Some (bundle_of true w5) /\ HistOK pe (w2a ++ w2b) /\ HistOK pe (w4a ++ w4b).
Proof.
  assert (Hp5 : plain_wf p5).
  { intros a k Ha. unfold stor_get. destruct (p_stor p5 !! a) as [m|] eqn:E; [|reflexivity].
    unfold p5 in *; simpl in *.
    destruct (decide (a = 5)) as [->|Hne].
    - vm_compute in Ha. discriminate.
    - rewrite lookup_insert_ne in E by congruence. rewrite lookup_empty in E. discriminate. }
  repeat split; try exact Hp5; try exact pe_wf; try (vm_compute; reflexivity).
  exists (bof w5). apply bof_some. vm_compute. reflexivity.
Qed.
