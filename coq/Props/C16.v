(* C16 - applying the bundle's plain-state changeset to the pre-history plain state yields the
   post-history plain state, for both OriginalValuesKnown settings.
   Only statements; proofs live in Proofs/BundleProofs{,Base,Acct,Lift,Code}.v. *)
From stdpp Require Import gmap.
From Coq Require Import ZArith.
From RevmV Require Import Model.Bundle Spec.BundleSpec Spec.BundleHist Proofs.BundleProofs Proofs.BundleProofsLift
  Proofs.BundleProofsCode Proofs.BundleWitness.
Local Open Scope Z_scope.

(* The full-strength statement (DESIGN.md Appendix C).  A history is a list of merge groups of
   transactions (the grouping is the merge schedule), HistOK = plain_wf p0, plain_nocode p0 (the
   account table holds infos without byte code; without it the clause is false: an account that is
   touched but not changed is written back without its code, see C16_nocode_needed) and TransOK
   for every transition.  PROVED below in full: C16_full. *)
Definition C16_statement : Prop :=
  forall (p0 : plain) (groups : list (list txout)) (retain known : bool),
    HistOK p0 groups ->
    exists b, bundle_of retain groups = Some b /\
      plain_equiv (apply_changeset (to_plain_state b known) p0) (plain_after p0 groups) /\
      contracts_cover (to_plain_state b known) p0 (plain_after p0 groups).

(* Final step, for every bundle whatsoever: if each account entry of the bundle is related to
   (pre-state, current state) by the bundle invariant [acct_inv] (info = current info; an info that
   equals original_info is the pre-state info; every slot reads as its present value, or 0 if the
   status says destroyed, or the pre-state value; an unchanged-looking slot of a not-destroyed
   account has the pre-state value), then the changeset applied to the pre-state is the current
   state - with original values declared known or not. *)
Theorem C16_changeset_of_invariant :
  forall (b : bundle) (p0 p : plain) (known : bool),
    bundle_inv b p0 p -> plain_equiv (apply_changeset (to_plain_state b known) p0) p.
Proof. exact changeset_of_inv. Qed.

Theorem C16_invariant_empty_bundle : forall p0, bundle_inv bundle_empty p0 p0.
Proof. exact bundle_inv_empty. Qed.

(* Preservation, for ALL TransOK histories and ALL merge schedules, both BundleRetention settings:
   the model never hits an `unreachable!` (bundle_of is defined) and the bundle it builds satisfies
   the invariant w.r.t. (pre-state, post-history state).  Proof: TransitionAccount::update keeps
   the transition accumulated for an address consistent with the plain states at the two ends of
   the group (Proofs/BundleProofsBase.v, mt_merge); BundleAccount::update_and_create_revert / the
   insertion of an unknown address preserve the per-account invariant in every reachable cell
   bundle status {absent: LoadedNotExisting, Loaded, LoadedEmptyEIP161, InMemoryChange, Changed,
   Destroyed, DestroyedAgain; present: InMemoryChange, Changed, Destroyed, DestroyedChanged,
   DestroyedAgain} x merged transition status {InMemoryChange, Changed, Destroyed,
   DestroyedChanged (wiped or not), DestroyedAgain} (Proofs/BundleProofsAcct.v, acct_step);
   the loop over addresses is a per-key merge (Proofs/BundleProofsLift.v, binv_group); induction
   over the groups (binv_history). *)
Theorem C16_invariant_preserved :
  forall (p0 : plain) (groups : list (list txout)) (retain : bool),
    HistOK p0 groups ->
    exists b, bundle_of retain groups = Some b /\ bundle_inv b p0 (plain_after p0 groups).
Proof. exact bundle_preservation. Qed.

(* C16 for all histories, schedules, retention and OriginalValuesKnown settings *)
Theorem C16_changeset_correct :
  forall (p0 : plain) (groups : list (list txout)) (retain known : bool),
    HistOK p0 groups ->
    exists b, bundle_of retain groups = Some b /\
      plain_equiv (apply_changeset (to_plain_state b known) p0) (plain_after p0 groups).
Proof. exact changeset_correct. Qed.

(* contracts: every account of the post-history state with real code whose hash is not the hash
   the address had in the pre-state finds its code in the changeset (Proofs/BundleProofsCode.v:
   the merged transition carries the code whenever its hash differs from the previous info's) *)
Theorem C16_contracts_cover :
  forall (p0 : plain) (groups : list (list txout)) (retain known : bool) (b : bundle),
    HistOK p0 groups -> bundle_of retain groups = Some b ->
    contracts_cover (to_plain_state b known) p0 (plain_after p0 groups).
Proof. exact contracts_correct. Qed.

(* the full-strength statement *)
Theorem C16_full : C16_statement.
Proof. exact changeset_full. Qed.

(* plain_nocode p0 cannot be dropped: account 1 carries its code in the pre-state and is touched
   without being changed; the bundle omits it, so the changeset leaves the pre-state info (with
   code) where the post-history state has the info without code (plain_step / the database write
   infos without code) *)
Example C16_nocode_needed :
  plain_wf p7 /\ hist_ok (h0 p7) (flat w7) = true /\
  exists b, bundle_of true w7 = Some b /\
    acc_get (apply_changeset (to_plain_state b true) p7) 1 <> acc_get (plain_after p7 w7) 1.
Proof.
  split; [exact p7_wf|]. split; [vm_compute; reflexivity|].
  exists (bof w7). split; [apply bof_some; vm_compute; reflexivity|]. vm_compute. discriminate.
Qed.

(* non-vacuity: HistOK is satisfiable by non-trivial histories (creation, write back to the
   original value, touch of an empty account, destroy / re-create, create+destroy in one group),
   and the model builds a bundle for them *)
Example C16_histok_satisfiable :
  HistOK p5 w5 /\ is_Some (bundle_of true w5) /\ HistOK pe (w2a ++ w2b) /\ HistOK pe (w4a ++ w4b).
Proof.
  repeat split; try exact p5_wf; try exact pe_wf; try exact pe_nocode; try exact p5_nocode;
    try (vm_compute; reflexivity).
  exists (bof w5). apply bof_some. vm_compute. reflexivity.
Qed.
