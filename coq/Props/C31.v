(* C31 — reusing an Evm instance is equivalent to using a fresh one.
   Only statements, closed by [exact]; proofs live in Proofs/InstanceProofs.v.
   Every theorem quantifies over the opaque types and over the parameters of Model/Instance.v
   (validation, access-list loading, precompile sets, the whole frame execution [exec], the end
   handle, commit): whatever those do, and in whatever condition [exec] leaves the journaled
   state, the database and the error slot. *)
From RevmV Require Import Base.Word Model.Instance Proofs.InstanceProofs.
Local Open Scope Z_scope.

(* JournaledState::clear (anything) = the fresh journaled state of that spec *)
Theorem C31_clear_is_fresh : forall js, js_clear js = js_new (j_spec js) [].
Proof. exact js_clear_fresh. Qed.

(* JournaledState::finalize returns state and logs and leaves the initial state with the spec
   (and the warm set, which the clear handle that always follows empties) *)
Theorem C31_finalize :
  forall js, fst (js_finalize js) = (j_state js, j_logs js)
             /\ snd (js_finalize js) = js_new (j_spec js) (j_warm js).
Proof. exact js_finalize_spec. Qed.

(* After transact / transact_commit / preverify_transaction / transact_preverified, on every path
   (validation error, access-list or L1-info database error, execution error, error left in the
   slot, revert, halt, success): empty state, transient storage, logs, journal [[]], depth 0,
   empty warm set, error slot Ok, no cached L1 block info; handler spec unchanged. *)
Theorem C31_every_entry_point_leaves_clean_instance :
  forall (db txenv err rcore l1info : Type) canon shanghai prague validate_env initial_tx_gas is_deposit l1_fetch
         tx_against_state coinbase_of load_access_list precompiles_of exec end_handle commit
         (i : instance db err l1info) (e : entry) (tx : txenv),
    l1_ok db err l1info i ->
    let i' := snd (@call db txenv err rcore l1info canon shanghai prague validate_env initial_tx_gas is_deposit
                         l1_fetch tx_against_state coinbase_of load_access_list precompiles_of exec end_handle
                         commit i e tx) in
    clean i' /\ i_spec i' = i_spec i /\ i_optimism i' = i_optimism i.
Proof. exact call_clean. Qed.

(* A clean instance and a freshly built one over the same database differ at most in the
   precompile set and the journaled spec ... *)
Theorem C31_clean_is_fresh_up_to_overwritten_fields :
  forall (db err l1info : Type) (i : instance db err l1info),
    clean i -> sim i (fresh (i_spec i) (i_optimism i) (i_db i)).
Proof. exact clean_sim_fresh. Qed.

(* ... and no entry point can tell such instances apart: same outcome, and again instances of
   that kind (the precompile set is re-derived from the spec by set_precompiles, the journaled spec
   by load_accounts, the warm set from coinbase / access list / precompiles, before anything reads them). *)
Theorem C31_entry_points_cannot_tell_apart :
  forall (db txenv err rcore l1info : Type) canon shanghai prague validate_env initial_tx_gas is_deposit l1_fetch
         tx_against_state coinbase_of load_access_list precompiles_of exec end_handle commit
         (a b : instance db err l1info) (e : entry) (tx : txenv),
    sim a b ->
    let f := @call db txenv err rcore l1info canon shanghai prague validate_env initial_tx_gas is_deposit
                   l1_fetch tx_against_state coinbase_of load_access_list precompiles_of exec end_handle commit in
    fst (f a e tx) = fst (f b e tx) /\ sim (snd (f a e tx)) (snd (f b e tx)).
Proof. exact call_sim. Qed.

(* Reuse = fresh: for every sequence of calls (any entry point, any transaction, any outcome)
   and spec changes, the outcomes and the final database of one reused instance are those of
   freshly built instances over the database of the moment. *)
Theorem C31_reuse_equals_fresh :
  forall (db txenv err rcore l1info : Type) canon shanghai prague validate_env initial_tx_gas is_deposit l1_fetch
         tx_against_state coinbase_of load_access_list precompiles_of exec end_handle commit
         (l : list (step txenv)) (i : instance db err l1info),
    clean i ->
    let reused := @run_reused db txenv err rcore l1info canon shanghai prague validate_env initial_tx_gas is_deposit
                     l1_fetch tx_against_state coinbase_of load_access_list precompiles_of exec end_handle commit i l in
    let fresh_ := @run_fresh db txenv err rcore l1info canon shanghai prague validate_env initial_tx_gas is_deposit
                     l1_fetch tx_against_state coinbase_of load_access_list precompiles_of exec end_handle commit
                     (i_spec i) (i_optimism i) (i_db i) l in
    fst reused = fst fresh_ /\ i_db (snd reused) = snd fresh_ /\ clean (snd reused).
Proof. exact reuse_equals_fresh. Qed.

(* a freshly built instance is clean *)
Example C31_fresh_is_clean :
  forall (d : unit), @clean unit Z Z (fresh 19 false d).
Proof. intros d. unfold clean. cbn. repeat split. Qed.

(* non-vacuity: a frame that leaves rubbish everywhere (non-empty state, transient storage, logs,
   depth 3, two journal levels, a polluted warm set, an error in the slot) on an instance that
   already carries residue; after transact the instance is clean and the precompile set is the
   one of the spec *)
Example C31_dirty_frame_is_cleaned :
  let junk := mkJ [(1, 1)] [(1, 1, 1)] [1] 3 [[1]; [2]] 17 [99] in
  let exec := fun (_ : bool) (_ : Z) (_ : unit) (_ : Z * Z) (_ : jstate) (d : unit) (_ : list Z) (_ : option Z) =>
                mkOut (inr 0 : Z + Z) junk d (Some 7) in
  let i := mkI junk (Some 3) [1; 2] tt None 19 false in
  let r := @transact unit unit Z Z Z (fun s => s) (fun _ => true) (fun _ => true) (fun _ _ _ => None)
             (fun _ _ => inr (21000, 0)) (fun _ => false) (fun _ d => (d, inr 0))
             (fun _ _ _ _ d st _ => ((st, d), None)) (fun _ => 5) (fun _ d js => ((js, d), None))
             (fun _ _ => [1; 2; 3]) exec (fun _ _ _ d o => (d, o)) i tt in
  fst r = inl 7 /\ i_js (snd r) = js_new 17 [] /\ i_err (snd r) = None /\ i_precompiles (snd r) = [1; 2; 3].
Proof. vm_compute. repeat split. Qed.
