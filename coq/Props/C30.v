(* C30 — the self-destruct notification.  Statements only; proofs in
   Proofs/SelfDestructNotifyProofs.v; model in Model/SelfDestructNotify.v (the wrapper as it
   is after commit "fix: inspector selfdestruct notification is inferred from the last journal
   entry": it looks at the instruction result and at the instruction's own operands). *)
From RevmV Require Import Base.Word Model.SelfDestructNotify Proofs.SelfDestructNotifyProofs.
Local Open Scope Z_scope.

(* For every interpreter / account state: a notification is emitted iff the instruction ended
   with InstructionResult::SelfDestruct (not for a static-call failure, a stack underflow, or
   an out-of-gas after the journal already moved the balance). *)
Theorem C30_notified_iff_completed :
  forall s res after n,
    wrapped_selfdestruct s = Some (res, after, n) -> (n <> None <-> res = RSelfDestruct).
Proof. exact notify_iff_result. Qed.

(* ... and then it names the executing contract, the beneficiary popped from the stack (low
   160 bits of the top word) and the balance that left the contract: the whole balance unless
   the beneficiary is the contract itself and the account is not destroyed (Cancun, not
   created in this transaction), in which case nothing leaves. *)
Theorem C30_notification_content :
  forall s after n,
    0 <= bal_contract s ->
    wrapped_selfdestruct s = Some (RSelfDestruct, after, n) ->
    exists top rest, stack s = top :: rest /\ is_static s = false /\
      n = Some (contract s, addr_of_word top,
                balance_that_left (contract s) (addr_of_word top) (bal_contract s) (created s) (cancun s)) /\
      after = bal_contract s - balance_that_left (contract s) (addr_of_word top) (bal_contract s) (created s) (cancun s).
Proof. exact notify_value. Qed.

(* The wrapper alone: silent for every other result, whatever happened to the balance
   (this is where the unfixed code reported journal entries of other events). *)
Theorem C30_no_notification_otherwise :
  forall res c top b a, res <> RSelfDestruct -> sd_wrapper res c top b a = None.
Proof. exact wrapper_silent. Qed.

(* non-vacuity: the six situations of the property text *)
Example C30_examples :
  let st stat stk c b cr cn g := mkSd stat stk c b 5 cr cn g in
  (* other beneficiary, not created, Cancun: whole balance leaves *)
  wrapped_selfdestruct (st false [77] 10 100 false true true) = Some (RSelfDestruct, 0, Some (10, 77, 100)) /\
  (* self, not created, Cancun: nothing leaves, still notified *)
  wrapped_selfdestruct (st false [10] 10 100 false true true) = Some (RSelfDestruct, 100, Some (10, 10, 0)) /\
  (* self, created in this tx, Cancun: destroyed, balance burnt *)
  wrapped_selfdestruct (st false [10] 10 100 true true true) = Some (RSelfDestruct, 0, Some (10, 10, 100)) /\
  (* self, before Cancun *)
  wrapped_selfdestruct (st false [10] 10 100 false false true) = Some (RSelfDestruct, 0, Some (10, 10, 100)) /\
  (* dirty high bits in the popped word *)
  wrapped_selfdestruct (st false [pow160 * 3 + 77] 10 100 false true true) = Some (RSelfDestruct, 0, Some (10, 77, 100)) /\
  (* static call, empty stack (the old F8 witness), out of gas after the host call *)
  wrapped_selfdestruct (st true [77] 10 100 false true true) = Some (RStateChangeDuringStaticCall, 100, None) /\
  wrapped_selfdestruct (st false [] 10 100 false true true) = Some (RStackUnderflow, 100, None) /\
  wrapped_selfdestruct (st false [77] 10 100 false true false) = Some (ROutOfGas, 0, None).
Proof. vm_compute. repeat split. Qed.
