(* C11 — per-frame memory: word-aligned when grown through resize_memory, zero-initialised,
   growing only, charged by the quadratic formula; a child frame starts empty and leaves the
   parent's memory and size exactly as they were, except for the return-data window.
   Only statements; proofs in Proofs/MemoryProofs.v. *)
From RevmV Require Import Base.Word Model.Memory Model.MemoryOps Spec.MemorySpec Proofs.MemoryProofs Proofs.MemoryOpsProofs.
Local Open Scope Z_scope.

(* invariant of SharedMemory for ALL frame histories (trees of own operations and complete
   child frames): last_checkpoint = last checkpoints <= |buffer|; a frame's history changes
   neither the checkpoints nor any byte below its own checkpoint *)
Theorem C11_history_invariant :
  forall (h : hist) (m : smem), inv m -> hist_ok h ->
    inv (run m h) /\ cps (run m h) = cps m /\ last_cp (run m h) = last_cp m /\
    zfirstn (last_cp m) (buf (run m h)) = zfirstn (last_cp m) (buf m).
Proof. intros h m I K. destruct (run_frame h m I K) as (A & B). exact (conj A B). Qed.

Theorem C11_initial_invariant : inv mem_new.
Proof. exact inv_new. Qed.

(* a child frame starts with empty memory *)
Theorem C11_child_starts_empty :
  forall m : smem, mlen (new_context m) = 0 /\ ctx (new_context m) = [].
Proof. exact new_context_empty. Qed.

(* after ANY complete child frame the parent's buffer, checkpoints, size and bytes are exactly
   as before *)
Theorem C11_child_frame_restores_parent :
  forall (m : smem) (c : hist), inv m -> hist_ok c ->
    let m' := run m (HCall c HNil) in
    buf m' = buf m /\ cps m' = cps m /\ last_cp m' = last_cp m /\ mlen m' = mlen m /\ ctx m' = ctx m.
Proof. exact child_frame_restores_parent. Qed.

(* the tree reading and the flat sequence of SharedMemory calls agree *)
Theorem C11_tree_is_flat_history :
  forall (h : hist) (m : smem), run_flat m (flatten h) = run m h.
Proof. exact run_flatten. Qed.

(* growing exposes only zero bytes — whatever a deeper, freed context left behind the length
   ([stale]) — and does not touch existing bytes *)
Theorem C11_growth_is_zero_filled :
  forall (m : smem) (n : Z), inv m -> mlen m <= n -> ctx (resize m n) = ctx m ++ zeros (n - mlen m).
Proof. exact resize_grow_zero. Qed.

Theorem C11_stale_bytes_unobservable :
  forall (m : smem) (s : list Z) (n : Z),
    buf (resize (mkM (buf m) s (cps m) (last_cp m)) n) = buf (resize m n).
Proof. exact resize_ignores_stale. Qed.

(* resize_memory (sizes below 2^64 - 31): on success the memory is word-aligned, covers
   new_size, strictly grew, kept its bytes, exposed zeros, and the gas charged is
   memory_gas(new words) - memory_gas(current words) *)
Theorem C11_resize_memory :
  forall (m m' : smem) (gas g' new_size : Z),
    inv m -> 0 <= new_size -> mlen m < new_size -> new_size + 31 < pow64 ->
    resize_memory m gas new_size = Some (m', g', true) ->
    mlen m' = words_spec new_size * 32 /\ mlen m' mod 32 = 0 /\ new_size <= mlen m' /\ mlen m < mlen m' /\
    ctx m' = ctx m ++ zeros (mlen m' - mlen m) /\
    gas - g' = memory_gas (words_spec new_size) - memory_gas (num_words (mlen m)).
Proof. intros m m' gas g' new_size. exact (resize_memory_ok m gas new_size m' g'). Qed.

(* memory_gas is the quadratic formula 3w + w^2/512: exactly for w < 2^32 (16 TiB of memory),
   and saturating at u64::MAX beyond the u64 range *)
Theorem C11_memory_gas_formula :
  forall w : Z, 0 <= w < 2 ^ 32 -> memory_gas w = mem_spec w.
Proof. exact memory_gas_exact. Qed.

Theorem C11_memory_gas_saturating :
  forall w : Z, 0 <= w < pow64 -> memory_gas w = Z.min (mem_spec w) (pow64 - 1).
Proof. exact memory_gas_spec. Qed.

(* insert_call_outcome writes only [out_off, out_off + min(out_len, |ret|)) and keeps the size *)
Theorem C11_return_window :
  forall (m : smem) (out_off out_len : Z) (ret : list Z), inv m ->
    snd (insert_call_outcome_mem m out_off out_len ret) = false ->
    let m' := fst (insert_call_outcome_mem m out_off out_len ret) in
    let v := zfirstn (Z.min out_len (zlen ret)) ret in
    mlen m' = mlen m /\ cps m' = cps m /\ last_cp m' = last_cp m /\
    (v = [] \/ ctx m' = zfirstn out_off (ctx m) ++ v ++ zskipn (out_off + zlen v) (ctx m)).
Proof. exact outcome_window. Qed.

(* ---- opcode layer (Model/MemoryOps.v: MLOAD MSTORE MSTORE8 MSIZE MCOPY CALLDATACOPY CODECOPY
   RETURNDATACOPY KECCAK256 LOGn RETURN REVERT STOP CALL as the interpreter runs them) *)

(* EVERY memory instruction, whatever its operands, the gas it has and whether it succeeds or
   fails: the SharedMemory invariant is kept, no checkpoint and no byte below the frame's
   checkpoint changes, the frame's memory does not shrink and stays a multiple of 32 bytes, and
   the gas meter only goes down *)
Theorem C11_every_instruction_grows_aligned :
  forall (e : fenv) (m : smem) (g : Z) (o : pop),
    inv m -> 0 <= mlen m -> mlen m mod 32 = 0 -> 0 <= g -> pop_nonneg o ->
    let r := exec e m g o in
    inv (o_mem r) /\ frame_eq m (o_mem r) /\ mlen m <= mlen (o_mem r) /\ mlen (o_mem r) mod 32 = 0 /\
    0 <= o_gas r <= g.
Proof.
  intros e m g o I L0 LA G0 NN. destruct (exec_frame e m g o I L0 LA G0 NN) as (A & B & C & D & E & F).
  cbn zeta. repeat (split; [assumption|]). exact F.
Qed.

(* the resize_memory! macro (every instruction goes through it): on success the gas taken is
   exactly memory_gas(words after) - memory_gas(words before); on MemoryOOG nothing changes *)
Theorem C11_resize_macro_charge :
  forall (m m' : smem) (g g' off len r : Z),
    inv m -> 0 <= mlen m -> mlen m mod 32 = 0 -> 0 <= g ->
    resize_macro m g off len = Some (m', g', r) ->
    (r = 0 \/ r = MemoryOOG) /\
    (r = MemoryOOG -> m' = m /\ g' = g) /\
    (r = 0 -> g - g' = memory_gas (num_words (mlen m')) - memory_gas (num_words (mlen m))).
Proof.
  intros m m' g g' off len r I L0 LA G0 E.
  destruct (resize_macro_ok m g off len m' g' r I L0 LA G0 E) as (_ & _ & _ & _ & _ & A & B & C). auto.
Qed.

(* MSTORE end to end: static gas 3 + the quadratic difference *)
Theorem C11_mstore_charge :
  forall (e : fenv) (m : smem) (g off v : Z),
    inv m -> 0 <= mlen m -> mlen m mod 32 = 0 -> 0 <= g ->
    let r := exec e m g (PMstore off v) in
    o_res r = R_Continue ->
    g - o_gas r = 3 + (memory_gas (num_words (mlen (o_mem r))) - memory_gas (num_words (mlen m))).
Proof. exact mstore_charge. Qed.

(* MCOPY's SharedMemory::copy is a memmove: the source is read as it was before the copy,
   for all overlaps (EIP-5656) *)
Theorem C11_mcopy_is_memmove :
  forall (m : smem) (dst src len : Z),
    inv m -> 0 <= dst -> 0 <= src -> 0 <= len -> mlen m < pow64 ->
    src + len <= mlen m -> dst + len <= mlen m ->
    snd (copy m dst src len) = false /\
    mlen (fst (copy m dst src len)) = mlen m /\
    ctx (fst (copy m dst src len)) =
      zfirstn dst (ctx m) ++ zfirstn len (zskipn src (ctx m)) ++ zskipn (dst + len) (ctx m).
Proof. exact copy_memmove. Qed.

(* non-vacuity of the opcode layer: an overlapping MCOPY after two stores, 9 gas of expansion *)
Example C11_example_program :
  let e := mkEnv [] [] [] in
  let r1 := exec e (new_context mem_new) 100 (PMstore 0 (2 ^ 256 - 1)) in
  let r2 := exec e (o_mem r1) (o_gas r1) (PMcopy 16 0 32) in
  inv (new_context mem_new) /\ o_res r1 = 0 /\ o_res r2 = 0 /\
  o_gas r1 = 100 - 3 - 3 /\ o_gas r2 = o_gas r1 - 6 - 3 /\
  ctx (o_mem r2) = repeat 255 48 ++ zeros 16.
Proof. vm_compute. repeat split; try reflexivity; intros H; discriminate H. Qed.

(* non-vacuity: a nested history; the grand-child writes where the parent later grows *)
Example C11_example_history :
  let h := HOp (MResize 32) (HOp (MSetByte 3 7)
            (HCall (HOp (MResize 64) (HOp (MSetByte 40 9) (HCall (HOp (MResize 32) (HOp (MSetByte 0 5) HNil)) HNil)))
            (HOp (MResize 96) HNil))) in
  hist_ok h /\ inv mem_new /\
  ctx (run mem_new h) = [0;0;0;7] ++ zeros 92.
Proof. vm_compute. repeat split; try discriminate; try (intros n E; inversion E; subst; discriminate). Qed.

(* ================================================================ composition with the reference
   interpreter of C01 (Model/Step.v + Model/Evm.v, whose memory instructions are Model/Memory.v's
   functions).  Proofs in Proofs/EvmMiscMemory.v.
   In Model/Evm.v every frame owns its memory value: a child is started on [mem_new] and the
   caller's state is kept aside while the child runs, so "a child cannot change the parent's
   memory" holds BY CONSTRUCTION of the interpreter (that revm's single shared buffer behaves this
   way is C11_child_frame_restores_parent above).  The content of the composition is: alignment and
   growth along a frame for every instruction, zero-filled growth, and the return-data window.
   [mem_ok m]: no open context, last_checkpoint 0, size a multiple of 32.
   [reach] / [frame_reach]: the states a run executes from, in any frame / in the frame itself. *)
From RevmV Require Import Model.Step Model.Evm Proofs.EvmProofs Proofs.EvmMiscProofs Proofs.EvmMiscMemory.

(* a frame starts on empty memory — the transaction's first frame and every child *)
Theorem C11_interpreter_frames_start_empty :
  forall W G Gc Fc Ic,
    (forall gl, i_mem (istate_new gl) = M.mem_new /\ M.mlen (i_mem (istate_new gl)) = 0 /\ mem_ok (i_mem (istate_new gl))) /\
    (forall c, call_child W G c = Some (Gc, Fc, Ic) -> i_mem Ic = M.mem_new) /\
    (forall c, create_child W G c = Some (Gc, Fc, Ic) -> i_mem Ic = M.mem_new).
Proof.
  intros W G Gc Fc Ic. split; [intros gl; split; [reflexivity|split; [reflexivity|apply mem_ok_new]]|].
  split; intros c E; [apply call_child_new in E|apply create_child_new in E]; destruct E as [-> _]; reflexivity.
Qed.

(* every instruction, whatever its outcome: the memory stays a word-aligned frame memory and its
   size does not decrease *)
Theorem C11_interpreter_instruction_keeps_memory_aligned :
  forall W G F I G' x,
    step W G F I = (G', x) -> mem_ok (i_mem I) ->
    match x with
    | SNext I' | SEnd _ _ I' | SCall _ I' | SCreate _ I' =>
        mem_ok (i_mem I') /\ M.mlen (i_mem I) <= M.mlen (i_mem I')
    | SBad _ => True
    end.
Proof. exact step_mem_ok. Qed.

(* the size changes only through resize_memory! (mem_resize, call_mem and LOG in Step.v), and
   what it appends is zero — the composition of C11_growth_is_zero_filled *)
Theorem C11_interpreter_growth_is_zero_filled :
  forall m g off len m' g' c,
    M.resize_macro m g off len = Some (m', g', c) -> mem_ok m ->
    mem_ok m' /\ M.mlen m <= M.mlen m' /\ M.ctx m' = M.ctx m ++ M.zeros (M.mlen m' - M.mlen m).
Proof. exact resize_macro_grow. Qed.

(* along one frame — its own instructions and complete calls / creates, whatever the children
   did at any depth — the memory never shrinks and stays word-aligned *)
Theorem C11_interpreter_frame_memory_only_grows :
  forall W f G F I Gx Ix,
    frame_reach W f G F I Gx Ix -> mem_ok (i_mem I) ->
    mem_ok (i_mem Ix) /\ M.mlen (i_mem I) <= M.mlen (i_mem Ix).
Proof. exact frame_memory_grows. Qed.

(* every state of every frame of a run has a word-aligned frame memory *)
Theorem C11_interpreter_memory_invariant :
  forall W f G F I Gx Fx Ix,
    reach W f G F I Gx Fx Ix -> mem_ok (i_mem I) -> mem_ok (i_mem Ix).
Proof. exact reach_mem_ok. Qed.

(* THE RETURN-DATA WINDOW: when the caller resumes after a call, its memory has the same size and
   is  old prefix ++ copied return data ++ old suffix, the copy sitting at ret_off with length
   min(ret_len, |return data|); nothing at all changes when that is empty or the child neither
   succeeded nor reverted (halt: no copy) *)
Theorem C11_interpreter_call_changes_only_the_return_window :
  forall I c r I2,
    insert_call_outcome I c r = Some I2 -> mem_ok (i_mem I) ->
    let v := firstn (Z.to_nat (Z.min (cq_ret_len c) (Step.zlen (ir_out r)))) (ir_out r) in
    mem_ok (i_mem I2) /\ M.mlen (i_mem I2) = M.mlen (i_mem I) /\
    ((v = [] \/ (is_ok (ir_res r) || is_revert (ir_res r)) = false) /\ M.ctx (i_mem I2) = M.ctx (i_mem I) \/
     (v <> [] /\ (is_ok (ir_res r) || is_revert (ir_res r)) = true /\
      0 <= cq_ret_off c /\ cq_ret_off c + Step.zlen v <= M.mlen (i_mem I) /\
      M.ctx (i_mem I2) = M.zfirstn (cq_ret_off c) (M.ctx (i_mem I)) ++ v ++
                         M.zskipn (cq_ret_off c + Step.zlen v) (M.ctx (i_mem I)))).
Proof. exact call_outcome_memory. Qed.

(* the same byte by byte: outside [ret_off, ret_off + min(ret_len, |return data|)) every byte is
   what it was before the call; inside, it is the old byte (no copy) or the return data *)
Theorem C11_interpreter_bytes_outside_window_unchanged :
  forall I c r I2,
    insert_call_outcome I c r = Some I2 -> mem_ok (i_mem I) ->
    let n := Z.min (cq_ret_len c) (Step.zlen (ir_out r)) in
    forall j : nat,
      (Z.of_nat j < cq_ret_off c \/ cq_ret_off c + Z.max n 0 <= Z.of_nat j ->
         nth j (M.ctx (i_mem I2)) 0 = nth j (M.ctx (i_mem I)) 0) /\
      (cq_ret_off c <= Z.of_nat j < cq_ret_off c + n ->
         nth j (M.ctx (i_mem I2)) 0 = nth j (M.ctx (i_mem I)) 0 \/
         nth j (M.ctx (i_mem I2)) 0 = nth (j - Z.to_nat (cq_ret_off c)) (ir_out r) 0).
Proof. exact call_outcome_bytes. Qed.

(* a create leaves the caller's memory exactly as it was *)
Theorem C11_interpreter_create_leaves_memory :
  forall I r a I2, insert_create_outcome I r a = Some I2 -> i_mem I2 = i_mem I.
Proof. exact create_outcome_memory. Qed.

(* non-vacuity: MSTORE8 at 33 grows an empty memory to 64 zero-initialised bytes; a call returning
   5 bytes into the window (30, 3) of a 64-byte memory changes bytes 30..32 only *)
Definition ex11_code : list Z := [0x60; 0xff; 0x60; 33; 0x53; 0x00].
Definition ex11_caller : istate := mkI 0 [] (M.resize M.mem_new 64) (Gas.gas_new 100) [].
Definition ex11_call : callreq := mkCall SchCall 0 0x2000 0x1000 0x2000 0 true false [] 30 3.
Example C11_interpreter_example :
  let W := mx_world ex11_code in let F := mx_frame ex11_code in let G := gstate_new W in
  mem_ok (i_mem ex11_caller) /\
  (exists I', step W G F (mkI 4 [33; 0xff] M.mem_new (Gas.gas_new 100) []) = (G, SNext I') /\
              M.ctx (i_mem I') = M.zeros 33 ++ [0xff] ++ M.zeros 30) /\
  (exists I2, insert_call_outcome ex11_caller ex11_call (mkIR R_Return [1;2;3;4;5] (Gas.gas_new 0)) = Some I2 /\
              M.ctx (i_mem I2) = M.zeros 30 ++ [1;2;3] ++ M.zeros 31 /\ i_stk I2 = [1]) /\
  (exists I2, insert_call_outcome ex11_caller ex11_call (mkIR R_OutOfGas [1;2;3;4;5] (Gas.gas_new 0)) = Some I2 /\
              M.ctx (i_mem I2) = M.zeros 64) /\
  (exists Gx Ix, frame_reach W 3 G F (istate_new 100) Gx Ix /\ M.mlen (i_mem Ix) = 64).
Proof.
  intros W F G. split; [split; [reflexivity|split; reflexivity]|]. split; [|split; [|split]].
  - eexists. split; vm_compute; reflexivity.
  - eexists. split; [vm_compute; reflexivity|]. split; vm_compute; reflexivity.
  - eexists. split; vm_compute; reflexivity.
  - eexists. eexists. split.
    + do 3 (eapply FNext; [vm_compute; reflexivity|]). apply FHere.
    + vm_compute. reflexivity.
Qed.
