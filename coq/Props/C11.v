(* C11 — per-frame memory: word-aligned when grown through resize_memory, zero-initialised,
   growing only, charged by the quadratic formula; a child frame starts empty and leaves the
   parent's memory and size exactly as they were, except for the return-data window.
   Only statements; proofs in Proofs/MemoryProofs.v. *)
From RevmV Require Import Base.Word Model.Memory Model.MemoryOps Spec.MemorySpec Proofs.MemoryProofs Proofs.MemoryOpsProofs.
Local Open Scope Z_scope.

(* invariant of SharedMemory for ALL frame histories (trees of own operations and complete
   child frames): last_checkpoint = last checkpoints <= |buffer|; a frame's history changes
   neither the checkpoints nor any byte below its own checkpoint *)
Theorem C11_history_invariant :
  forall (h : hist) (m : smem), inv m -> hist_ok h ->
    inv (run m h) /\ cps (run m h) = cps m /\ last_cp (run m h) = last_cp m /\
    zfirstn (last_cp m) (buf (run m h)) = zfirstn (last_cp m) (buf m).
Proof. intros h m I K. destruct (run_frame h m I K) as (A & B). exact (conj A B). Qed.

Theorem C11_initial_invariant : inv mem_new.
Proof. exact inv_new. Qed.

(* a child frame starts with empty memory *)
Theorem C11_child_starts_empty :
  forall m : smem, mlen (new_context m) = 0 /\ ctx (new_context m) = [].
Proof. exact new_context_empty. Qed.

(* after ANY complete child frame the parent's buffer, checkpoints, size and bytes are exactly
   as before *)
Theorem C11_child_frame_restores_parent :
  forall (m : smem) (c : hist), inv m -> hist_ok c ->
    let m' := run m (HCall c HNil) in
    buf m' = buf m /\ cps m' = cps m /\ last_cp m' = last_cp m /\ mlen m' = mlen m /\ ctx m' = ctx m.
Proof. exact child_frame_restores_parent. Qed.

(* the tree reading and the flat sequence of SharedMemory calls agree *)
Theorem C11_tree_is_flat_history :
  forall (h : hist) (m : smem), run_flat m (flatten h) = run m h.
Proof. exact run_flatten. Qed.

(* growing exposes only zero bytes — whatever a deeper, freed context left behind the length
   ([stale]) — and does not touch existing bytes *)
Theorem C11_growth_is_zero_filled :
  forall (m : smem) (n : Z), inv m -> mlen m <= n -> ctx (resize m n) = ctx m ++ zeros (n - mlen m).
Proof. exact resize_grow_zero. Qed.

Theorem C11_stale_bytes_unobservable :
  forall (m : smem) (s : list Z) (n : Z),
    buf (resize (mkM (buf m) s (cps m) (last_cp m)) n) = buf (resize m n).
Proof. exact resize_ignores_stale. Qed.

(* resize_memory (sizes below 2^64 - 31): on success the memory is word-aligned, covers
   new_size, strictly grew, kept its bytes, exposed zeros, and the gas charged is
   memory_gas(new words) - memory_gas(current words) *)
Theorem C11_resize_memory :
  forall (m m' : smem) (gas g' new_size : Z),
    inv m -> 0 <= new_size -> mlen m < new_size -> new_size + 31 < pow64 ->
    resize_memory m gas new_size = Some (m', g', true) ->
    mlen m' = words_spec new_size * 32 /\ mlen m' mod 32 = 0 /\ new_size <= mlen m' /\ mlen m < mlen m' /\
    ctx m' = ctx m ++ zeros (mlen m' - mlen m) /\
    gas - g' = memory_gas (words_spec new_size) - memory_gas (num_words (mlen m)).
Proof. intros m m' gas g' new_size. exact (resize_memory_ok m gas new_size m' g'). Qed.

(* memory_gas is the quadratic formula 3w + w^2/512: exactly for w < 2^32 (16 TiB of memory),
   and saturating at u64::MAX beyond the u64 range *)
Theorem C11_memory_gas_formula :
  forall w : Z, 0 <= w < 2 ^ 32 -> memory_gas w = mem_spec w.
Proof. exact memory_gas_exact. Qed.

Theorem C11_memory_gas_saturating :
  forall w : Z, 0 <= w < pow64 -> memory_gas w = Z.min (mem_spec w) (pow64 - 1).
Proof. exact memory_gas_spec. Qed.

(* insert_call_outcome writes only [out_off, out_off + min(out_len, |ret|)) and keeps the size *)
Theorem C11_return_window :
  forall (m : smem) (out_off out_len : Z) (ret : list Z), inv m ->
    snd (insert_call_outcome_mem m out_off out_len ret) = false ->
    let m' := fst (insert_call_outcome_mem m out_off out_len ret) in
    let v := zfirstn (Z.min out_len (zlen ret)) ret in
    mlen m' = mlen m /\ cps m' = cps m /\ last_cp m' = last_cp m /\
    (v = [] \/ ctx m' = zfirstn out_off (ctx m) ++ v ++ zskipn (out_off + zlen v) (ctx m)).
Proof. exact outcome_window. Qed.

(* ---- opcode layer (Model/MemoryOps.v: MLOAD MSTORE MSTORE8 MSIZE MCOPY CALLDATACOPY CODECOPY
   RETURNDATACOPY KECCAK256 LOGn RETURN REVERT STOP CALL as the interpreter runs them) *)

(* EVERY memory instruction, whatever its operands, the gas it has and whether it succeeds or
   fails: the SharedMemory invariant is kept, no checkpoint and no byte below the frame's
   checkpoint changes, the frame's memory does not shrink and stays a multiple of 32 bytes, and
   the gas meter only goes down *)
Theorem C11_every_instruction_grows_aligned :
  forall (e : fenv) (m : smem) (g : Z) (o : pop),
    inv m -> 0 <= mlen m -> mlen m mod 32 = 0 -> 0 <= g -> pop_nonneg o ->
    let r := exec e m g o in
    inv (o_mem r) /\ frame_eq m (o_mem r) /\ mlen m <= mlen (o_mem r) /\ mlen (o_mem r) mod 32 = 0 /\
    0 <= o_gas r <= g.
Proof.
  intros e m g o I L0 LA G0 NN. destruct (exec_frame e m g o I L0 LA G0 NN) as (A & B & C & D & E & F).
  cbn zeta. repeat (split; [assumption|]). exact F.
Qed.

(* the resize_memory! macro (every instruction goes through it): on success the gas taken is
   exactly memory_gas(words after) - memory_gas(words before); on MemoryOOG nothing changes *)
Theorem C11_resize_macro_charge :
  forall (m m' : smem) (g g' off len r : Z),
    inv m -> 0 <= mlen m -> mlen m mod 32 = 0 -> 0 <= g ->
    resize_macro m g off len = Some (m', g', r) ->
    (r = 0 \/ r = MemoryOOG) /\
    (r = MemoryOOG -> m' = m /\ g' = g) /\
    (r = 0 -> g - g' = memory_gas (num_words (mlen m')) - memory_gas (num_words (mlen m))).
Proof.
  intros m m' g g' off len r I L0 LA G0 E.
  destruct (resize_macro_ok m g off len m' g' r I L0 LA G0 E) as (_ & _ & _ & _ & _ & A & B & C). auto.
Qed.

(* MSTORE end to end: static gas 3 + the quadratic difference *)
Theorem C11_mstore_charge :
  forall (e : fenv) (m : smem) (g off v : Z),
    inv m -> 0 <= mlen m -> mlen m mod 32 = 0 -> 0 <= g ->
    let r := exec e m g (PMstore off v) in
    o_res r = R_Continue ->
    g - o_gas r = 3 + (memory_gas (num_words (mlen (o_mem r))) - memory_gas (num_words (mlen m))).
Proof. exact mstore_charge. Qed.

(* MCOPY's SharedMemory::copy is a memmove: the source is read as it was before the copy,
   for all overlaps (EIP-5656) *)
Theorem C11_mcopy_is_memmove :
  forall (m : smem) (dst src len : Z),
    inv m -> 0 <= dst -> 0 <= src -> 0 <= len -> mlen m < pow64 ->
    src + len <= mlen m -> dst + len <= mlen m ->
    snd (copy m dst src len) = false /\
    mlen (fst (copy m dst src len)) = mlen m /\
    ctx (fst (copy m dst src len)) =
      zfirstn dst (ctx m) ++ zfirstn len (zskipn src (ctx m)) ++ zskipn (dst + len) (ctx m).
Proof. exact copy_memmove. Qed.

(* non-vacuity of the opcode layer: an overlapping MCOPY after two stores, 9 gas of expansion *)
Example C11_example_program :
  let e := mkEnv [] [] [] in
  let r1 := exec e (new_context mem_new) 100 (PMstore 0 (2 ^ 256 - 1)) in
  let r2 := exec e (o_mem r1) (o_gas r1) (PMcopy 16 0 32) in
  inv (new_context mem_new) /\ o_res r1 = 0 /\ o_res r2 = 0 /\
  o_gas r1 = 100 - 3 - 3 /\ o_gas r2 = o_gas r1 - 6 - 3 /\
  ctx (o_mem r2) = repeat 255 48 ++ zeros 16.
Proof. vm_compute. repeat split; try reflexivity; intros H; discriminate H. Qed.

(* non-vacuity: a nested history; the grand-child writes where the parent later grows *)
Example C11_example_history :
  let h := HOp (MResize 32) (HOp (MSetByte 3 7)
            (HCall (HOp (MResize 64) (HOp (MSetByte 40 9) (HCall (HOp (MResize 32) (HOp (MSetByte 0 5) HNil)) HNil)))
            (HOp (MResize 96) HNil))) in
  hist_ok h /\ inv mem_new /\
  ctx (run mem_new h) = [0;0;0;7] ++ zeros 92.
Proof. vm_compute. repeat split; try discriminate; try (intros n E; inversion E; subst; discriminate). Qed.
