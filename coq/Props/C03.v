(* C03 — ADD MUL SUB DIV SDIV MOD SMOD ADDMOD MULMOD EXP SIGNEXTEND LT GT SLT SGT EQ ISZERO AND
   OR XOR NOT BYTE SHL SHR SAR push the value defined by unbounded-integer arithmetic reduced
   modulo 2^256, charge the gas of their fork and consume exactly their inputs.
   Only statements; proofs live in Proofs/ArithProofs.v.  [op_*] is the model of the Rust
   function body (Model/Arith.v, first argument = former top of stack), [S.*] the
   specification on unbounded Z (Spec/ArithSpec.v). *)
From RevmV Require Import Base.Word Model.Gas Model.Arith Proofs.ArithProofs.
From RevmV Require Spec.ArithSpec Gen.ArithGas.
Import ListNotations.
Local Open Scope Z_scope.
Module S := ArithSpec.

(* ---- one theorem per opcode: model of the Rust algorithm = specification, all operands ---- *)
Theorem C03_ADD : forall a b, op_add a b = S.ADD a b. Proof. exact add_ok. Qed.
Theorem C03_MUL : forall a b, op_mul a b = S.MUL a b. Proof. exact mul_ok. Qed.
Theorem C03_SUB : forall a b, op_sub a b = S.SUB a b. Proof. exact sub_ok. Qed.
Theorem C03_DIV : forall a b, op_div a b = S.DIV a b. Proof. exact div_ok. Qed.
Theorem C03_SDIV : forall a b, in_u256 a -> in_u256 b -> op_sdiv a b = S.SDIV a b.
Proof. exact sdiv_ok. Qed.
Theorem C03_MOD : forall a b, op_rem a b = S.MOD a b. Proof. exact rem_ok. Qed.
Theorem C03_SMOD : forall a b, in_u256 a -> in_u256 b -> op_smod a b = S.SMOD a b.
Proof. exact smod_ok. Qed.
(* ruint's add_mod (reduce, overflowing add, one conditional subtraction) = (a + b) mod n without
   intermediate reduction mod 2^256 *)
Theorem C03_ADDMOD : forall a b n, in_u256 a -> in_u256 b -> in_u256 n -> op_addmod a b n = S.ADDMOD a b n.
Proof. exact addmod_ok. Qed.
Theorem C03_MULMOD : forall a b n, op_mulmod a b n = S.MULMOD a b n. Proof. exact mulmod_ok. Qed.
(* the square-and-multiply loop of ruint's wrapping_pow computes a^e mod 2^256 *)
Theorem C03_EXP : forall a e, in_u256 e -> op_exp a e = S.EXP a e. Proof. exact exp_ok. Qed.
Theorem C03_SIGNEXTEND : forall k x, in_u256 k -> in_u256 x -> op_signextend k x = S.SIGNEXTEND k x.
Proof. exact signextend_ok. Qed.
Theorem C03_LT : forall a b, op_lt a b = S.LT a b. Proof. exact lt_ok. Qed.
Theorem C03_GT : forall a b, op_gt a b = S.GT a b. Proof. exact gt_ok. Qed.
Theorem C03_SLT : forall a b, in_u256 a -> in_u256 b -> op_slt a b = S.SLT a b. Proof. exact slt_ok. Qed.
Theorem C03_SGT : forall a b, in_u256 a -> in_u256 b -> op_sgt a b = S.SGT a b. Proof. exact sgt_ok. Qed.
Theorem C03_EQ : forall a b, op_eq a b = S.EQ a b. Proof. exact eq_ok. Qed.
Theorem C03_ISZERO : forall a, op_iszero a = S.ISZERO a. Proof. exact iszero_ok. Qed.
Theorem C03_AND : forall a b, in_u256 a -> in_u256 b -> op_and a b = S.AND a b. Proof. exact and_ok. Qed.
Theorem C03_OR : forall a b, in_u256 a -> in_u256 b -> op_or a b = S.OR a b. Proof. exact or_ok. Qed.
Theorem C03_XOR : forall a b, in_u256 a -> in_u256 b -> op_xor a b = S.XOR a b. Proof. exact xor_ok. Qed.
Theorem C03_NOT : forall a, in_u256 a -> op_not a = S.NOT a. Proof. exact not_ok. Qed.
Theorem C03_BYTE : forall i x, in_u256 i -> op_byte i x = S.BYTE i x. Proof. exact byte_ok. Qed.
Theorem C03_SHL : forall s x, in_u256 s -> in_u256 x -> op_shl s x = S.SHL s x. Proof. exact shl_ok. Qed.
Theorem C03_SHR : forall s x, in_u256 s -> in_u256 x -> op_shr s x = S.SHR s x. Proof. exact shr_ok. Qed.
Theorem C03_SAR : forall s x, in_u256 s -> in_u256 x -> op_sar s x = S.SAR s x. Proof. exact sar_ok. Qed.

(* ---- the specification read bit by bit: SIGNEXTEND replicates bit 8k+7 upwards ---- *)
Theorem C03_SIGNEXTEND_bit_replication :
  forall k x i, 0 <= k < 31 -> in_u256 x -> 0 <= i < 256 ->
    Z.testbit (S.SIGNEXTEND k x) i = Z.testbit x (if i <? 8 * k + 7 then i else 8 * k + 7).
Proof. exact SIGNEXTEND_bits. Qed.

(* ---- sanity of the specification itself: two's complement round trip; SDIV/SMOD are quotient and
   remainder of one division; the 32 BYTEs are the big-endian digits of the word ---- *)
Theorem C03_spec_signed :
  forall x, in_u256 x -> - pow255 <= S.signed x < pow255 /\ S.word (S.signed x) = x.
Proof. exact signed_range_roundtrip. Qed.
Theorem C03_spec_SDIV_SMOD_euclid :
  forall a b, in_u256 a -> in_u256 b -> b <> 0 -> S.ADD (S.MUL (S.SDIV a b) b) (S.SMOD a b) = a.
Proof. exact SDIV_SMOD_euclid. Qed.
Theorem C03_spec_BYTE_big_endian : forall x, in_u256 x -> S.be_value 32 x = x.
Proof. exact BYTE_big_endian. Qed.

(* ---- the evaluable forms used by the correspondence oracle are the specification ---- *)
Theorem C03_oracle_forms :
  forall a b, in_u256 a -> in_u256 b ->
    S.EXP_fast a b = S.EXP a b /\ S.SHL_fast a b = S.SHL a b /\
    S.SHR_fast a b = S.SHR a b /\ S.SAR_fast a b = S.SAR a b.
Proof.
  intros a b Ha Hb. repeat split;
    [apply EXP_fast_ok; destruct Hb; lia|now apply SHL_fast_ok|now apply SHR_fast_ok|now apply SAR_fast_ok].
Qed.

(* ---- EXP gas: 10 + g * (number of bytes of the exponent), never None ---- *)
Theorem C03_exp_cost :
  forall spec e, in_u256 e ->
    exp_cost spec e = Some (10 + (if 5 <=? spec then 50 else 10) * S.byte_size e).
Proof. exact exp_cost_ok. Qed.
Theorem C03_byte_size_spec :
  forall e, 0 < e < pow256 ->
    256 ^ (S.byte_size e - 1) <= e < 256 ^ (S.byte_size e) /\ 1 <= S.byte_size e <= 32.
Proof. exact byte_size_spec. Qed.
Theorem C03_byte_size_zero : S.byte_size 0 = 0. Proof. reflexivity. Qed.

(* ---- static prices of the model = Yellow-Paper tiers (finite table) ---- *)
Theorem C03_static_gas_tiers :
  forall op, In op c03_opcodes -> op <> 0x0A ->
  forall spec st g, S.available spec op = true -> Z.of_nat (length st) >= S.arity op ->
    forall c, S.static_gas op = Some c -> c <= remaining g ->
      remaining (i_gas (step spec op st g)) = remaining g - c.
Proof. exact static_gas_charged. Qed.

(* ---- the compiled code's SpecId x opcode table (Gen/ArithGas.v, produced by executing every
   opcode of the property under every SpecId): each opcode runs exactly in the forks that have
   it (SHL/SHR/SAR from CONSTANTINOPLE) and charges the Yellow-Paper tier / the EIP-160 EXP price ---- *)
Theorem C03_gas_table_complete :
  map (fun r => let '(spec, op, _, _) := r in (spec, op)) ArithGas.table
  = list_prod S.all_specs S.opcodes.
Proof. vm_compute. reflexivity. Qed.
Theorem C03_gas_table :
  forall row, In row ArithGas.table -> S.cell_ok row = true.
Proof. apply forallb_forall. vm_compute. reflexivity. Qed.
Theorem C03_opcode_list : S.opcodes = c03_opcodes. Proof. reflexivity. Qed.

(* ---- the instruction step: with the opcode available in the fork, its operands on the stack
   and enough gas, the step replaces exactly the operands by the specification value and
   charges exactly the specification gas ---- *)
Theorem C03_step_runs :
  forall spec op args rest g v c,
    In op c03_opcodes -> S.available spec op = true -> Forall in_u256 args ->
    S.value op args = Some v -> S.gas_of spec op args = Some c -> c <= remaining g ->
    step spec op (args ++ rest) g = mkI Continue (v :: rest) (charged g c).
Proof. exact step_runs. Qed.

(* ---- failing steps: nothing runs ---- *)
Theorem C03_step_not_available :
  forall spec op st g, In op c03_opcodes -> S.available spec op = false ->
    step spec op st g = mkI NotActivated st g.
Proof. exact step_not_available. Qed.
Theorem C03_step_underflow :
  forall spec op st g, In op c03_opcodes -> Z.of_nat (length st) < S.arity op ->
    i_res (step spec op st g) <> Continue /\ i_stack (step spec op st g) = st.
Proof. exact step_underflow. Qed.
Theorem C03_step_out_of_gas :
  forall spec op args rest g c,
    In op c03_opcodes -> S.available spec op = true -> Forall in_u256 args ->
    Z.of_nat (length args) = S.arity op -> S.gas_of spec op args = Some c -> remaining g < c ->
    i_res (step spec op (args ++ rest) g) = OutOfGas /\ i_gas (step spec op (args ++ rest) g) = g.
Proof. exact step_out_of_gas. Qed.

(* ---- non-vacuity and sanity of the specification on the classical corner cases ---- *)
Example C03_hypotheses_satisfiable :
  In 0x05 c03_opcodes /\ S.available 18 0x05 = true /\ Forall in_u256 [pow255; pow256 - 1] /\
  S.value 0x05 [pow255; pow256 - 1] = Some pow255 /\ S.gas_of 18 0x05 [pow255; pow256 - 1] = Some 5 /\
  step 18 0x05 [pow255; pow256 - 1; 7] (gas_new 100) = mkI Continue [pow255; 7] (mkGas 100 95 0).
Proof.
  split; [cbn; tauto|]. split; [reflexivity|]. split.
  - repeat constructor; unfold in_u256, pow255, pow256; lia.
  - vm_compute. repeat split; reflexivity.
Qed.
Example C03_spec_corner_cases :
  S.SDIV (pow256 - 7) 2 = pow256 - 3 /\ S.SMOD (pow256 - 7) 2 = pow256 - 1 /\
  S.SMOD 7 (pow256 - 2) = 1 /\ S.SDIV 5 0 = 0 /\ S.MOD 5 0 = 0 /\ S.ADDMOD (pow256 - 1) (pow256 - 1) 7 = 2 /\
  S.SIGNEXTEND 0 0xff = pow256 - 1 /\ S.SIGNEXTEND 0 0x17f = 0x7f /\ S.SIGNEXTEND 31 5 = 5 /\
  S.BYTE 31 0x1234 = 0x34 /\ S.BYTE 0 pow255 = 0x80 /\ S.BYTE 32 (pow256 - 1) = 0 /\
  S.SAR_fast 1 (pow256 - 3) = pow256 - 2 /\ S.SAR_fast 300 pow255 = pow256 - 1 /\ S.SAR_fast 255 (pow255 - 1) = 0 /\
  S.SHL_fast 255 3 = pow255 /\ S.SHR_fast 255 pow255 = 1 /\ S.EXP_fast 3 (pow256 - 1) mod 3 = 2 /\
  S.exp_gas 4 256 = 30 /\ S.exp_gas 5 255 = 60 /\ S.exp_gas 5 0 = 10 /\ S.SLT (pow256 - 1) 0 = 1.
Proof. vm_compute. repeat split; reflexivity. Qed.
