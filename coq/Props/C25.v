(* C25 — interpreting any bytecode is memory-safe and terminates with a result.
   What is proved here (only statements; proofs in Proofs/ControlFlowProofs.v, Proofs/StepTableProofs.v):
   for EVERY legacy byte string the instruction pointer of the control-flow model
   (Model/ControlFlow.v: fetch on the padded buffer, successors by opcode class, jump targets
   validated by the analysis of C04) never leaves the padded buffer, PUSH immediates are read
   inside it, jumps land inside the original code; every continuing instruction charges >= 1 gas
   (executed table of all SpecIds x opcodes, Gen/StepTable.v) so a frame with gas g performs at
   most g continuing steps; the operand-stack length stays in [0, 1024].
   NOT proved (see props.py `partial`): that the Rust `unsafe` blocks are free of undefined
   behaviour, anything about the memory buffer, EOF execution.  Those parts rest on the runtime
   evidence of the correspondence runs (hook, debug assertions, panics caught).
   Hypotheses: [bytes_ok code] (every element is a byte), [code_fits code] (length + 33 <= 2^64). *)
From RevmV Require Import Base.Word Model.Jump Model.Gas Spec.JumpSpec Proofs.JumpProofs Gen.OpInfo Gen.StepTable
  Model.ControlFlow Model.StepCost Proofs.ControlFlowProofs Proofs.StepTableProofs Proofs.StackEffectProofs.
From RevmV Require Model.Stack.
Local Open Scope Z_scope.

(* (a) before every opcode fetch of every run from pc = 0 the program counter is inside the padded
   buffer (length + 33 bytes); more precisely pc <= length + 32 *)
Theorem C25_fetch_in_buffer :
  forall (code : list Z) (pc : Z),
    bytes_ok code -> code_fits code -> cf_reach code pc ->
    0 <= pc < zlen (code_buffer code).
Proof. exact reach_in_buffer. Qed.

Theorem C25_buffer_is_padded_code :
  forall code, code_buffer code = code ++ repeat 0 33 /\ zlen (code_buffer code) = zlen code + 33.
Proof. intros code. split; [reflexivity|apply code_buffer_length]. Qed.

Theorem C25_pc_le_len_plus_32 :
  forall (code : list Z) (pc : Z),
    bytes_ok code -> code_fits code -> cf_reach code pc -> 0 <= pc <= zlen code + 32.
Proof. exact reach_le_len32. Qed.

(* the pointer arithmetic does not wrap: pc < 2^64 *)
Theorem C25_pc_is_usize :
  forall (code : list Z) (pc : Z),
    bytes_ok code -> code_fits code -> cf_reach code pc -> 0 <= pc < pow64.
Proof. exact reach_usize. Qed.

(* a fetch at or beyond the original length reads 0 = STOP and the run ends there *)
Theorem C25_padding_fetch_stops :
  forall (code : list Z) (pc : Z),
    zlen code <= pc ->
    fetch code pc = 0 /\ cf_class_of (fetch code pc) = CTerm /\ forall pc', ~ cf_step code pc pc'.
Proof. exact reach_padding_stops. Qed.

(* (b) the immediate of every instruction that continues (PUSH1..PUSH32: n = 1..32 bytes at
   [pc+1, pc+1+n)) lies inside the padded buffer, and the opcode itself inside the original code *)
Theorem C25_immediate_in_buffer :
  forall (code : list Z) (pc imm : Z),
    bytes_ok code -> code_fits code -> cf_reach code pc ->
    cf_class_of (fetch code pc) = CSeq imm ->
    0 <= imm <= 32 /\ pc < zlen code /\ pc + 1 + imm <= zlen (code_buffer code) /\
    Z.of_nat (length (push_read code pc imm)) = imm.
Proof. exact reach_immediate_in_buffer. Qed.

(* (c) a step is sequential, or lands on a JUMPDEST of the original code that is an instruction start *)
Theorem C25_step_targets :
  forall (code : list Z) (pc pc' : Z),
    bytes_ok code -> code_fits code -> cf_reach code pc -> cf_step code pc pc' ->
    pc' = pc + 1 + legacy_imm (fetch code pc) \/
    (0 <= pc' < zlen code /\ fetch code pc' = 0x5b /\ InstrStart code (Z.to_nat pc')).
Proof. exact step_targets. Qed.

(* every fetched position is an instruction start (never inside PUSH data) *)
Theorem C25_reach_instr_start :
  forall (code : list Z) (pc : Z),
    bytes_ok code -> code_fits code -> cf_reach code pc -> 0 <= pc /\ InstrStart code (Z.to_nat pc).
Proof. exact reach_IS. Qed.

(* the executable successor check used on recorded traces is the step relation *)
Theorem C25_trace_check_sound :
  forall (code : list Z) (pcs : list Z),
    Forall (fun p => p < pow256) pcs -> cf_trace_ok code pcs = true -> Forall (cf_reach code) pcs.
Proof. exact cf_trace_ok_reach. Qed.

(* ---- (d) gas: finite table, all SpecIds x profiles x opcode bytes ------------------------------ *)
Theorem C25_table_checked :
  forallb row_check step_rows = true.
Proof. exact all_rows_check. Qed.

Theorem C25_continuing_instruction_charges_gas :
  forall spec p op c,
    table_cell spec p op = Some c -> continuing c = true -> 1 <= cell_spent c.
Proof. exact table_continuing_charges. Qed.

Theorem C25_table_no_panic :
  forall spec p op c, table_cell spec p op = Some c -> cell_class c <> 9.
Proof. exact table_no_panic. Qed.

Theorem C25_terminating_opcodes_never_continue :
  forall spec p op c,
    table_cell spec p op = Some c -> cf_class_of op = CTerm -> continuing c = false.
Proof. exact table_term_never_continues. Qed.

(* JUMPDEST = 1 is the least charge *)
Example C25_jumpdest_is_the_minimum :
  charge_lb 17 0x5b = Some 1 /\ charge_lb 0 0x5b = Some 1 /\
  forallb (fun s => forallb (fun op => match charge_lb s op with Some m => 1 <=? m | None => true end)
                            (map Z.of_nat (seq 0 256))) table_specs = true.
Proof. vm_compute. repeat split. Qed.

(* the frame machine: n continuing steps from Interpreter::new(_, g) cost at least n gas, hence
   n <= g (at most g + 1 fetches); the instruction pointer stays reachable (so inside the buffer),
   the remaining gas in [0, g - n], the stack length in [0, 1024] *)
Theorem C25_frame_terminates_partial :
  forall (lb : Z -> option Z) (code : list Z) (n : nat) (g : Z) (s' : cfg),
    lb_pos lb -> 0 <= g -> m_run lb code n (cfg_init g) s' ->
    Z.of_nat n <= g /\ cf_reach code (c_pc s') /\ 0 <= remaining (c_gas s') <= g - Z.of_nat n /\
    0 <= c_slen s' <= STACK_LIMIT.
Proof. exact m_run_from_init. Qed.
(* partial: the frame machine abstracts the data side; that the real charge of an instruction is at
   least the table's lower bound in every state is checked on every step of the correspondence runs,
   not proved; gas returned by a sub-call is at most the gas handed to it (C13/C09) is assumed. *)

Theorem C25_charge_bound_positive : forall spec, lb_pos (charge_lb spec).
Proof. exact charge_lb_pos. Qed.

Theorem C25_frame_terminates_spec_partial :
  forall (spec : Z) (code : list Z) (n : nat) (g : Z) (s' : cfg),
    bytes_ok code -> code_fits code -> 0 <= g -> m_run (charge_lb spec) code n (cfg_init g) s' ->
    Z.of_nat n <= g /\ 0 <= c_pc s' < zlen (code_buffer code) /\
    0 <= remaining (c_gas s') <= g - Z.of_nat n /\ 0 <= c_slen s' <= 1024.
Proof.
  intros spec code n g s' Hb Hf Hg H.
  destruct (m_run_from_init _ code n g s' (charge_lb_pos spec) Hg H) as (A & B & C & D).
  split; [exact A|]. split; [exact (reach_in_buffer code _ Hb Hf B)|]. split; [exact C|exact D].
Qed.

(* ---- (e) stack ---------------------------------------------------------------------------------- *)
(* arithmetic of the checks the pop!/push! macros perform, over the reflected (inputs, outputs) *)
Theorem C25_stack_effect_in_bounds :
  forall i o len len',
    0 <= i -> 0 <= o -> 0 <= len <= 1024 -> stack_effect i o len = Some len' ->
    0 <= len' <= 1024 /\ i <= len /\ len' = len - i + o.
Proof. exact stack_effect_range. Qed.

(* the executed instructions obey exactly this arithmetic, for every SpecId, opcode and profile
   (ample stack of 0s / 1s, one operand short, full stack) *)
Theorem C25_table_stack_effect :
  forall spec p op c,
    table_cell spec p op = Some c ->
    let len := profile_len p op in let i := op_inputs op in let o := op_outputs op in
    (cell_class c = 0 -> i <= len /\ cell_len c = len - i + o /\ cell_len c <= 1024) /\
    (cell_class c = 1 -> i <= len /\ cell_len c = len - i) /\
    (cell_class c = 4 -> len < i) /\
    (cell_class c = 5 -> 1024 < len - i + o) /\
    (len < i -> 3 < cell_class c) /\
    (1024 < len - i + o -> cell_class c <> 0) /\
    0 <= cell_len c <= 1024.
Proof. exact table_stack_effect. Qed.

(* the same arithmetic is what the stack methods of the C12 model (Model/Stack.v) do for the stack
   opcodes: push (PUSH0 / PUSHn / PC ...: 0 in, 1 out), pop (1, 0), dup(n) (n, n + 1), swap(n) (n + 1, n + 1) *)
Theorem C25_stack_effect_is_push :
  forall d v,
    match stack_effect 0 1 (Stack.slen d) with
    | Some l => snd (Stack.push d v) = Stack.Ok 0 /\ Stack.slen (fst (Stack.push d v)) = l
    | None => Stack.slen d <= 1024 -> Stack.push d v = (d, Stack.Err Stack.StackOverflow)
    end.
Proof. exact push_effect. Qed.

Theorem C25_stack_effect_is_pop :
  forall d,
    Stack.slen d <= 1024 ->
    match stack_effect 1 0 (Stack.slen d) with
    | Some l => (exists v, snd (Stack.pop d) = Stack.Ok v) /\ Stack.slen (fst (Stack.pop d)) = l
    | None => Stack.pop d = (d, Stack.Err Stack.StackUnderflow)
    end.
Proof. exact pop_effect. Qed.

Theorem C25_stack_effect_is_dup :
  forall d n,
    0 < n -> Stack.slen d <= 1024 ->
    match stack_effect n (n + 1) (Stack.slen d) with
    | Some l => snd (Stack.dup d n) = Stack.Ok 0 /\ Stack.slen (fst (Stack.dup d n)) = l
    | None => exists e, Stack.dup d n = (d, Stack.Err e) /\ (e = Stack.StackUnderflow \/ e = Stack.StackOverflow)
    end.
Proof. exact dup_effect. Qed.

Theorem C25_stack_effect_is_swap :
  forall d n,
    0 < n < pow64 -> Stack.slen d <= 1024 ->
    match stack_effect (n + 1) (n + 1) (Stack.slen d) with
    | Some l => snd (Stack.swap d n) = Stack.Ok 0 /\ Stack.slen (fst (Stack.swap d n)) = l
    | None => Stack.swap d n = (d, Stack.Err Stack.StackUnderflow)
    end.
Proof. exact swap_effect. Qed.

(* and the reflected table gives DUPn = (n, n + 1), SWAPn = (n + 1, n + 1), POP = (1, 0), PUSHn / PUSH0 / PC = (0, 1) *)
Theorem C25_stack_opcode_io :
  (forall n, 1 <= n <= 16 ->
     op_inputs (0x7f + n) = n /\ op_outputs (0x7f + n) = n + 1 /\
     op_inputs (0x8f + n) = n + 1 /\ op_outputs (0x8f + n) = n + 1) /\
  map (fun op => (op_inputs op, op_outputs op)) [0x50; 0x5f; 0x60; 0x7f; 0x58] = [(1, 0); (0, 1); (0, 1); (0, 1); (0, 1)].
Proof. split; [exact dup_swap_io|vm_compute; reflexivity]. Qed.

(* ---- non-vacuity ---------------------------------------------------------------------------------- *)
(* PUSH1 3; JUMP; JUMPDEST; PUSH32 (truncated after 2 bytes) *)
Definition ex_code : list Z := [0x60; 0x03; 0x56; 0x5b; 0x7f; 0xaa; 0xbb].

Lemma ex_steps :
  cf_step ex_code 0 2 /\ cf_step ex_code 2 3 /\ cf_step ex_code 3 4 /\ cf_step ex_code 4 37.
Proof.
  split; [|split; [|split]].
  - change 2 with (0 + 1 + 1). apply S_seq; [lia|vm_compute; reflexivity].
  - apply S_jump; [lia|vm_compute; reflexivity|vm_compute; split; [discriminate|reflexivity]|vm_compute; reflexivity].
  - change 4 with (3 + 1 + 0). apply S_seq; [lia|vm_compute; reflexivity].
  - change 37 with (4 + 1 + 32). apply S_seq; [lia|vm_compute; reflexivity].
Qed.

(* the run 0 -> 2 -> 3 -> 4 -> 37 ends in the padding (37 = length + 30 < length + 33), where STOP is read *)
Example C25_example_run :
  bytes_ok ex_code /\ code_fits ex_code /\ cf_trace_ok ex_code [0; 2; 3; 4; 37] = true /\
  cf_reach ex_code 37 /\ zlen ex_code = 7 /\ fetch ex_code 37 = 0 /\
  map (push_read ex_code 4) [32] = [[0xaa; 0xbb] ++ repeat 0 30].
Proof.
  destruct ex_steps as (S1 & S2 & S3 & S4).
  split; [repeat constructor; unfold byte_ok; lia|].
  split; [unfold code_fits; vm_compute; discriminate|].
  split; [vm_compute; reflexivity|].
  split; [|split; [reflexivity|split; vm_compute; reflexivity]].
  eapply R_step; [|exact S4]. eapply R_step; [|exact S3]. eapply R_step; [|exact S2].
  eapply R_step; [|exact S1]. constructor.
Qed.

(* three continuing steps under CANCUN (17) cost 3 + 8 + 1 = 12 gas: possible with 12, and the bound
   n <= g of the theorem is met with n = 3 *)
Example C25_example_frame :
  exists s', m_run (charge_lb 17) ex_code 3 (cfg_init 12) s' /\
             c_pc s' = 4 /\ remaining (c_gas s') = 0 /\ c_slen s' = 0.
Proof.
  destruct ex_steps as (S1 & S2 & S3 & _).
  eexists. split.
  - eapply MR_cons.
    { eapply (M_step _ _ (cfg_init 12) 2 3 3); [exact S1|vm_compute; reflexivity|lia|reflexivity|vm_compute; reflexivity]. }
    eapply MR_cons.
    { eapply (M_step _ _ _ 3 8 8); [exact S2|vm_compute; reflexivity|lia|reflexivity|vm_compute; reflexivity]. }
    eapply MR_cons.
    { eapply (M_step _ _ _ 4 1 1); [exact S3|vm_compute; reflexivity|lia|reflexivity|vm_compute; reflexivity]. }
    apply MR_nil.
  - cbn. repeat split.
Qed.
