(* C32 — blob fee functions (crates/primitives/src/utilities.rs as repaired by the fix: commits).
   Only statements; proofs live in Proofs/BlobProofs.v.
   [fake_exponential_is f n d v]: the EIP-4844 loop on unbounded integers terminates with v. *)
From RevmV Require Import Base.Word Model.Blob Spec.BlobSpec Proofs.BlobProofs.
From RevmV Require Corr.C32.
Local Open Scope Z_scope.

(* The EIP loop terminates for all non-negative arguments (the accumulator reaches 0: once
   i > numerator it strictly decreases) and its value is unique: the specification is a
   total function on the whole domain. *)
Theorem C32_spec_terminates :
  forall f n d, 0 <= f -> 0 <= n -> 0 < d -> exists v, fake_exponential_is f n d v.
Proof. exact fake_exponential_terminates. Qed.

Theorem C32_spec_unique :
  forall f n d v1 v2, fake_exponential_is f n d v1 -> fake_exponential_is f n d v2 -> v1 = v2.
Proof. exact fake_exponential_is_unique. Qed.

(* For ALL u64 arguments with denominator > 0: the model (2048 iterations of fuel, U256 checked
   intermediates) terminates without exhausting its fuel and returns the EIP value when that
   is < 2^128, otherwise exactly u128::MAX — never a wrapped value. *)
Theorem C32_fake_exponential :
  forall f n d v, in_u64 f -> in_u64 n -> in_u64 d -> 0 < d ->
    fake_exponential_is f n d v ->
    Blob.fake_exponential f n d = FeVal (if v <? pow128 then v else pow128 - 1).
Proof. exact fake_exponential_correct. Qed.

Theorem C32_fake_exponential_fits :
  forall f n d v, in_u64 f -> in_u64 n -> in_u64 d -> 0 < d ->
    fake_exponential_is f n d v -> v < pow128 -> Blob.fake_exponential f n d = FeVal v.
Proof. exact fake_exponential_fits. Qed.

Theorem C32_fake_exponential_saturates :
  forall f n d v, in_u64 f -> in_u64 n -> in_u64 d -> 0 < d ->
    fake_exponential_is f n d v -> pow128 <= v ->
    Blob.fake_exponential f n d = FeVal (pow128 - 1).
Proof. exact fake_exponential_saturates. Qed.

(* the argument behind the saturation: a 256-bit overflow of output + accum or of
   accum * numerator implies that the EIP value is >= 2^128 *)
Theorem C32_overflow_add_implies_huge :
  forall fuel n d i out acc v,
    0 <= n -> 0 < d < pow64 -> 0 < i -> 0 <= acc -> acc <> 0 -> pow256 <= out + acc ->
    spec_loop fuel n d i out acc = Some v -> pow128 <= v.
Proof. exact overflow_add_ge_pow128. Qed.

Theorem C32_overflow_mul_implies_huge :
  forall fuel n d i out acc v,
    0 <= n < pow64 -> 0 < d < pow64 -> 0 < i -> 0 <= out -> 0 <= acc -> acc <> 0 ->
    pow256 <= acc * n ->
    spec_loop fuel n d i out acc = Some v -> pow128 <= v.
Proof. exact overflow_mul_ge_pow128. Qed.

Theorem C32_fuel_suffices :
  forall n d acc, 0 <= n < pow64 -> 0 < d < pow64 -> 0 <= acc < pow256 ->
    fe_loop fe_fuel n d 1 0 acc <> FeFuel.
Proof. exact fe_loop_fuel_suffices. Qed.

(* blob gas price for every excess value and both update fractions *)
Theorem C32_blob_gasprice :
  forall e (is_prague : bool) v, in_u64 e ->
    fake_exponential_is 1 e (if is_prague then 5007716 else 3338477) v ->
    Blob.calc_blob_gasprice e is_prague = FeVal (if v <? pow128 then v else pow128 - 1).
Proof. exact calc_blob_gasprice_correct. Qed.

(* next excess blob gas: max(0, excess + used - target) whenever that fits in u64, else
   u64::MAX; for all arguments (no range hypothesis is needed) *)
Theorem C32_excess_blob_gas :
  forall a b t, Blob.calc_excess_blob_gas a b t = Z.min (Z.max 0 (a + b - t)) (pow64 - 1).
Proof. exact calc_excess_blob_gas_correct. Qed.

Theorem C32_excess_blob_gas_fits :
  forall a b t, Z.max 0 (a + b - t) < pow64 ->
    Blob.calc_excess_blob_gas a b t = Z.max 0 (a + b - t).
Proof. intros a b t H. rewrite calc_excess_blob_gas_correct. unfold BlobSpec.calc_excess_blob_gas. lia. Qed.

(* the cut-off used by the specification oracle of the correspondence check (Corr/C32.v) is sound *)
Theorem C32_oracle_cutoff_sound :
  forall fuel n d i out acc fuel' v,
    0 <= n -> 0 < d -> 0 < i -> 0 <= acc ->
    spec_loop fuel' n d i out acc = Some v ->
    match Corr.C32.oracle_loop fuel n d i out acc with
    | Corr.C32.OExact x => x = v
    | Corr.C32.OHuge => pow128 <= v
    | Corr.C32.OUnknown => True
    end.
Proof. exact oracle_loop_sound. Qed.

(* non-vacuity / pinned values: the go-ethereum vectors, the old overflow threshold (F9), F10 *)
Example C32_vectors :
  fake_exponential_is 1 148099578 3338477 18446739238971471609 /\
  Blob.calc_blob_gasprice 148099578 false = FeVal 18446739238971471609 /\
  fake_exponential_is 1 200000000 3338477 104116911553853437920042949 /\
  Blob.calc_blob_gasprice 200000000 false = FeVal 104116911553853437920042949 /\
  Blob.calc_blob_gasprice (pow64 - 1) true = FeVal (pow128 - 1) /\
  Blob.calc_excess_blob_gas (pow64 - 1) 1 5 = pow64 - 5 /\
  Blob.calc_excess_blob_gas (pow64 - 1) (pow64 - 1) 0 = pow64 - 1.
Proof.
  repeat split; try (vm_compute; reflexivity); exists (Z.to_nat 200); vm_compute; reflexivity.
Qed.
