(* C07 — call depth is bounded at 1024 and independent of earlier sibling calls.
   Statements only; model Model/Frames.v (frame functions of EvmContext), proofs
   Proofs/FramesProofs.v on top of the journal invariants of C06. *)
From RevmV Require Import Base.Word Model.Host Model.Frames Proofs.HostOps Proofs.HostRevert
  Proofs.HostMain Proofs.FramesProofs.
Local Open Scope Z_scope.

(* For every database, every transaction-start state (journal [[]], depth 0) and EVERY sequence
   of frame events — calls (value transfer failing or not, precompile success/failure,
   EXTDELEGATECALL to non-EOF code, empty code, EIP-7702 delegation, depth rejection), creates
   (EF00 init code, missing funds, nonce overflow, precompile or account collision, balance
   overflow), their returns (ok / revert / halt; code-deposit failures) and arbitrary host
   operations in between — issued within the contract of the journaled-state calls:
   the journal depth equals the number of open frames. *)
Theorem C07_depth_is_number_of_open_frames :
  forall d s es s' cps',
    tx_start d s -> econtract d (s, []) es -> frun d (s, []) es = Some (s', cps') ->
    depth s' = Z.of_nat (length cps').
Proof. exact depth_is_open_frames. Qed.

(* Every single event: a call/create that does not produce a frame leaves the depth unchanged
   whatever the reason; one that produces a frame adds exactly one level; every return removes
   exactly one level whatever the outcome. *)
Theorem C07_each_event_restores_depth :
  forall d s0 s cps e s' cps' r,
    Inv d s0 s cps -> depth s = depth s0 + 1 + Z.of_nat (length cps) ->
    contract d (s, cps) (hops_of_event d (s, cps) e) ->
    fstep d (s, cps) e = Some ((s', cps'), r) ->
    depth s' = depth s + Z.of_nat (length cps') - Z.of_nat (length cps) /\
    match e, r with
    | ECall _, Some (FResult _) | ECreate _, Some (FResult _) => cps' = cps
    | ECall _, Some (FFrame cp) | ECreate _, Some (FFrame cp) => cps' = cp :: cps
    | ECallReturn _, _ | ECreateReturn _ _, _ => exists cp, cps = cp :: cps'
    | _, _ => True
    end.
Proof. exact event_depth. Qed.

(* The depth check rejects exactly when the depth exceeds 1024. Together with the first
   theorem: a call is rejected for depth iff more than 1024 frames are open, i.e. the
   transaction frame plus 1024 nested ones — independent of how many sibling frames completed
   or failed before. *)
Theorem C07_too_deep_iff_depth_exceeds_limit :
  forall d s cps ci sc' r,
    make_call_frame d (s, cps) ci = Some (sc', r) ->
    (r = FResult RCallTooDeep <-> depth s > 1024).
Proof. exact too_deep_iff. Qed.

Theorem C07_frame_functions_are_journal_histories :
  forall d sc e sc' r, fstep d sc e = Some (sc', r) -> run_hops d sc (hops_of_event d sc e) = Some sc'.
Proof. exact fstep_as_hops. Qed.

(* non-vacuity *)
Definition ex7_db : db :=
  mkDb (fun a => if a =? 33 then Some (100, 1, 0) else if a =? 34 then Some (5, 0, 1) else None)
       (fun _ _ => 0) (fun _ => None).
Definition ex7_events : list fevent :=
  [ECall (mkCI 33 34 34 (Transfer 7) false None false); EHop (HSstore 34 0 5);
   ECall (mkCI 34 35 35 (Transfer 1000) false None false);
   ECall (mkCI 34 4 4 (Transfer 0) false (Some false) false);
   ECreate (mkCR 34 1 40 false false false); ECreateReturn 40 CRFail; ECallReturn false].
Example C07_hypotheses_satisfiable :
  tx_start ex7_db (jnew true true (fun a => a =? 4)) /\
  econtract ex7_db (jnew true true (fun a => a =? 4), []) ex7_events /\
  exists s' cps', frun ex7_db (jnew true true (fun a => a =? 4), []) ex7_events = Some (s', cps').
Proof.
  split; [|split].
  - split; [|split; reflexivity]. split; [split|split].
    + intros a acc H. discriminate.
    + intros a b n c. unfold ex7_db. cbn [db_basic].
      destruct (a =? 33); [intros [= <- _ _]; unfold_pows; lia|].
      destruct (a =? 34); [intros [= <- _ _]; unfold_pows; lia|discriminate].
    + intros a acc H. discriminate.
    + cbn. congruence.
  - vm_compute. repeat split; intros; try discriminate; try reflexivity; try (right; left; discriminate); auto;
      try (match goal with H : Some _ = Some ?x |- _ => injection H as <-; discriminate end).
  - vm_compute. eauto.
Qed.
