(* C07 — call depth is bounded at 1024 and independent of earlier sibling calls.
   Statements only; model Model/Frames.v (frame functions of EvmContext), proofs
   Proofs/FramesProofs.v on top of the journal invariants of C06. *)
From RevmV Require Import Base.Word Model.Host Model.Frames Proofs.HostOps Proofs.HostRevert
  Proofs.HostMain Proofs.FramesProofs.
Local Open Scope Z_scope.

(* For every database, every transaction-start state (journal [[]], depth 0) and EVERY sequence
   of frame events — calls (value transfer failing or not, precompile success/failure,
   EXTDELEGATECALL to non-EOF code, empty code, EIP-7702 delegation, depth rejection), creates
   (EF00 init code, missing funds, nonce overflow, precompile or account collision, balance
   overflow), their returns (ok / revert / halt; code-deposit failures) and arbitrary host
   operations in between — issued within the contract of the journaled-state calls:
   the journal depth equals the number of open frames. *)
Theorem C07_depth_is_number_of_open_frames :
  forall d s es s' cps',
    tx_start d s -> econtract d (s, []) es -> frun d (s, []) es = Some (s', cps') ->
    depth s' = Z.of_nat (length cps').
Proof. exact depth_is_open_frames. Qed.

(* Every single event: a call/create that does not produce a frame leaves the depth unchanged
   whatever the reason; one that produces a frame adds exactly one level; every return removes
   exactly one level whatever the outcome. *)
Theorem C07_each_event_restores_depth :
  forall d s0 s cps e s' cps' r,
    Inv d s0 s cps -> depth s = depth s0 + 1 + Z.of_nat (length cps) ->
    contract d (s, cps) (hops_of_event d (s, cps) e) ->
    fstep d (s, cps) e = Some ((s', cps'), r) ->
    depth s' = depth s + Z.of_nat (length cps') - Z.of_nat (length cps) /\
    match e, r with
    | ECall _, Some (FResult _) | ECreate _, Some (FResult _) => cps' = cps
    | ECall _, Some (FFrame cp) | ECreate _, Some (FFrame cp) => cps' = cp :: cps
    | ECallReturn _, _ | ECreateReturn _ _, _ => exists cp, cps = cp :: cps'
    | _, _ => True
    end.
Proof. exact event_depth. Qed.

(* The depth check rejects exactly when the depth exceeds 1024. Together with the first
   theorem: a call is rejected for depth iff more than 1024 frames are open, i.e. the
   transaction frame plus 1024 nested ones — independent of how many sibling frames completed
   or failed before. *)
Theorem C07_too_deep_iff_depth_exceeds_limit :
  forall d s cps ci sc' r,
    make_call_frame d (s, cps) ci = Some (sc', r) ->
    (r = FResult RCallTooDeep <-> depth s > 1024).
Proof. exact too_deep_iff. Qed.

Theorem C07_frame_functions_are_journal_histories :
  forall d sc e sc' r, fstep d sc e = Some (sc', r) -> run_hops d sc (hops_of_event d sc e) = Some sc'.
Proof. exact fstep_as_hops. Qed.

(* non-vacuity *)
Definition ex7_db : db :=
  mkDb (fun a => if a =? 33 then Some (100, 1, 0) else if a =? 34 then Some (5, 0, 1) else None)
       (fun _ _ => 0) (fun _ => None).
Definition ex7_events : list fevent :=
  [ECall (mkCI 33 34 34 (Transfer 7) false None false); EHop (HSstore 34 0 5);
   ECall (mkCI 34 35 35 (Transfer 1000) false None false);
   ECall (mkCI 34 4 4 (Transfer 0) false (Some false) false);
   ECreate (mkCR 34 1 40 false false false); ECreateReturn 40 CRFail; ECallReturn false].
Example C07_hypotheses_satisfiable :
  tx_start ex7_db (jnew true true (fun a => a =? 4)) /\
  econtract ex7_db (jnew true true (fun a => a =? 4), []) ex7_events /\
  exists s' cps', frun ex7_db (jnew true true (fun a => a =? 4), []) ex7_events = Some (s', cps').
Proof.
  split; [|split].
  - split; [|split; reflexivity]. split; [split|split].
    + intros a acc H. discriminate.
    + intros a b n c. unfold ex7_db. cbn [db_basic].
      destruct (a =? 33); [intros [= <- _ _]; unfold_pows; lia|].
      destruct (a =? 34); [intros [= <- _ _]; unfold_pows; lia|discriminate].
    + intros a acc H. discriminate.
    + cbn. congruence.
  - vm_compute. repeat split; intros; try discriminate; try reflexivity; try (right; left; discriminate); auto;
      try (match goal with H : Some _ = Some ?x |- _ => injection H as <-; discriminate end).
  - vm_compute. eauto.
Qed.

(* ================================================================ composition with the reference
   interpreter of C01 (Model/Evm.v: do_call / do_create / exec over the frame functions above).
   Proofs in Proofs/EvmMiscProofs.v (on top of Proofs/EvmFrameProofs.v).
   [depth_inv G]: the journal depth is the number of open frame checkpoints (the invariant of
   C07_depth_is_number_of_open_frames in the interpreter's state).
   [reach W f G F I Gx Fx Ix]: the run [exec f W G F I] executes an instruction from (Gx, Fx, Ix),
   in the frame itself or in a frame nested at any depth below it. *)
From RevmV Require Import Model.Step Model.Evm Proofs.EvmProofs Proofs.EvmFrameProofs Proofs.EvmMiscProofs.
From RevmV Require Proofs.EvmGasProofs.

(* the transaction starts inside the invariant, at depth 0 *)
Theorem C07_interpreter_initial_state :
  forall W, depth_inv (gstate_new W) /\ Host.depth (gs (gstate_new W)) = 0.
Proof. intros W. split; reflexivity. Qed.

(* ... and so does the first frame: the state run_tx hands to it after load_access_list,
   deduct_caller and the EIP-7702 authorisations ([tx_before_frame], the prefix of run_tx) *)
Theorem C07_interpreter_first_frame_starts_at_depth_0 :
  forall W G2 n, EvmGasProofs.tx_before_frame W = Some (G2, n) -> depth_inv G2 /\ Host.depth (gs G2) = 0.
Proof. exact tx_first_frame_state. Qed.

(* during a run the depth never exceeds 1024 + 1 (the transaction frame plus 1024 nested ones),
   stays the number of open frames, and is never below the depth of the frame that is running *)
Theorem C07_interpreter_depth_bounded :
  forall W f G F I Gx Fx Ix,
    reach W f G F I Gx Fx Ix -> depth_inv G -> Host.depth (gs G) <= 1025 ->
    depth_inv Gx /\ Host.depth (gs G) <= Host.depth (gs Gx) <= 1025.
Proof. exact reach_depth. Qed.

(* a child frame is entered only from depth <= 1024 and lies exactly one level deeper *)
Theorem C07_interpreter_child_is_one_level_deeper :
  forall W G Gc Fc Ic,
    (forall c, call_child W G c = Some (Gc, Fc, Ic) ->
       Host.depth (gs G) <= 1024 /\ Host.depth (gs Gc) = Host.depth (gs G) + 1 /\
       exists cp, snd (g_sc Gc) = cp :: snd (g_sc G)) /\
    (forall c, create_child W G c = Some (Gc, Fc, Ic) ->
       Host.depth (gs G) <= 1024 /\ Host.depth (gs Gc) = Host.depth (gs G) + 1 /\
       exists cp, snd (g_sc Gc) = cp :: snd (g_sc G)).
Proof. intros W G Gc Fc Ic. split; intros c; [apply call_child_depth|apply create_child_depth]. Qed.

(* a CALL-family request issued at depth > 1024 is answered CallTooDeep with all the gas it was
   given: no frame is opened, the child interpreter is not run ([rec] is arbitrary), and the whole
   transaction state (journaled state, checkpoints, code table, logs) is what it was *)
Theorem C07_interpreter_call_too_deep :
  forall W rec G c,
    Host.depth (gs G) > 1024 ->
    call_child W G c = None /\
    do_call W rec G c = XDone (G, mkIR R_CallTooDeep [] (Gas.gas_new (cq_gas_limit c))).
Proof. exact do_call_too_deep. Qed.

Theorem C07_interpreter_create_too_deep :
  forall W rec G c,
    Host.depth (gs G) > 1024 ->
    create_child W G c = None /\
    do_create W rec G c = XDone (G, mkIR R_CallTooDeep [] (Gas.gas_new (kq_gas_limit c)), None).
Proof. exact do_create_too_deep. Qed.

(* ... and at depth <= 1024 the depth check does not fire *)
Theorem C07_interpreter_no_rejection_up_to_limit :
  forall W G c sc' r,
    Host.depth (gs G) <= 1024 ->
    make_call_frame (gdb W G) (g_sc G) (call_ci W c) = Some (sc', r) -> r <> FResult RCallTooDeep.
Proof. exact do_call_not_too_deep. Qed.

(* what the caller sees of a rejected call: 0 pushed, the gas handed over is back, return data
   empty, memory and program order untouched *)
Theorem C07_interpreter_caller_after_too_deep :
  forall I c gl,
    0 <= gl -> 0 <= Gas.remaining (i_gas I) -> Gas.remaining (i_gas I) + gl < pow64 ->
    exists g, insert_call_outcome I c (mkIR R_CallTooDeep [] (Gas.gas_new gl)) =
              Some (mkI (i_pc I + 1) (0 :: i_stk I) (i_mem I) g []) /\
              Gas.remaining g = Gas.remaining (i_gas I) + gl /\ Gas.limit g = Gas.limit (i_gas I) /\
              Gas.refunded g = Gas.refunded (i_gas I).
Proof. exact insert_too_deep. Qed.

(* every frame, every call and every create returns with the depth and the open checkpoints it
   started from, whatever its outcome and whatever was nested inside; the invariant survives *)
Theorem C07_interpreter_frame_restores_depth :
  forall W f G F I G' r,
    exec f W G F I = XDone (G', r) ->
    Host.depth (gs G') = Host.depth (gs G) /\ snd (g_sc G') = snd (g_sc G) /\ (depth_inv G -> depth_inv G').
Proof. exact frame_restores_depth. Qed.
Theorem C07_interpreter_call_restores_depth :
  forall W f G c G' r,
    do_call W (exec f W) G c = XDone (G', r) ->
    Host.depth (gs G') = Host.depth (gs G) /\ snd (g_sc G') = snd (g_sc G) /\ (depth_inv G -> depth_inv G').
Proof. exact call_restores_depth. Qed.
Theorem C07_interpreter_create_restores_depth :
  forall W f G c G' r a,
    do_create W (exec f W) G c = XDone (G', r, a) ->
    Host.depth (gs G') = Host.depth (gs G) /\ snd (g_sc G') = snd (g_sc G) /\ (depth_inv G -> depth_inv G').
Proof. exact create_restores_depth. Qed.

(* do_call / do_create run the child frame exactly from [call_child] / [create_child] (so the
   states of [reach] are the states of the real run) *)
Theorem C07_interpreter_child_is_what_do_call_runs :
  forall W rec G c G1 F1 I1,
    call_child W G c = Some (G1, F1, I1) ->
    do_call W rec G c =
      match rec G1 F1 I1 with
      | XDone (G2, r) =>
          match call_return (g_sc G2) (is_ok (ir_res r)) with
          | Some sc3 => XDone (set_sc G2 sc3, r)
          | None => XBad BAD_PANIC
          end
      | XOutOfFuel => XOutOfFuel
      | XBad k => XBad k
      end.
Proof. exact do_call_child_some. Qed.

(* non-vacuity: a contract that calls itself (PUSH1 0 x5; ADDRESS; GAS; CALL; STOP): the run
   enters the child one level deeper; a request at depth 1025 is rejected without a frame *)
Definition ex7_rcode : list Z := [0x60;0;0x60;0;0x60;0;0x60;0;0x60;0;0x30;0x5a;0xf1;0x00].
Example C07_interpreter_example :
  let W := mx_world ex7_rcode in let F := mx_frame ex7_rcode in let G := gstate_new W in
  depth_inv G /\
  (exists Gc Fc Ic, reach W 9 G F (istate_new 100000) Gc Fc Ic /\
                    Host.depth (gs Gc) = Host.depth (gs G) + 1 /\ f_code Fc = ex7_rcode) /\
  (let Gd := set_s G (set_depth (gs G) 1025) in
   do_call W (fun _ _ _ => XOutOfFuel) Gd (mkCall SchCall 1000 0x1000 0x1000 0x1000 0 true false [] 0 0)
   = XDone (Gd, mkIR R_CallTooDeep [] (Gas.gas_new 1000))).
Proof.
  intros W F G. split; [reflexivity|split].
  - eexists. eexists. eexists. split.
    + do 7 (eapply RNext; [vm_compute; reflexivity|]).
      eapply RCallIn; [vm_compute; reflexivity|vm_compute; reflexivity|apply RHere].
    + vm_compute. split; reflexivity.
  - apply do_call_too_deep. vm_compute. reflexivity.
Qed.
