(* C01 — executing a transaction: the reference interpreter (Model/Step.v, Model/Evm.v) and what
   is proved ABOUT it.  There is no formal execution specification in this development, so the
   statement "revm = the execution specification" is split into
     (a) the theorems below about the Gallina interpreter, which is assembled from the component
         models that carry their own theorems (C02-C07, C09, C11-C14, C34);
     (b) Corr/C01.v: the interpreter against the real Evm on generated transactions
         (class, gas used / refunded, output, logs, every account of the returned state);
     (c) the official execution-spec vectors through revme's own runner (driver c01vec).
   Statements only; proofs in Proofs/StepProofs.v, Proofs/EvmProofs.v, Proofs/EvmFrameProofs.v,
   Proofs/EvmHistoryProofs.v. *)
From RevmV Require Import Base.Word Model.Step Model.Evm Proofs.StepProofs Proofs.EvmProofs Proofs.EvmFrameProofs Proofs.EvmHistoryProofs.
From RevmV Require Model.Jump Proofs.JumpProofs Model.Host Model.Frames Proofs.HostView Proofs.HostRevert Proofs.FramesProofs.
Local Open Scope Z_scope.

(* ---- fuel is only a device: an answer that is not "out of fuel" does not depend on it *)
Theorem C01_frame_fuel_independent :
  forall f k W G F I, exec f W G F I <> XOutOfFuel -> exec (f + k) W G F I = exec f W G F I.
Proof. exact exec_fuel_mono. Qed.

Theorem C01_tx_fuel_independent :
  forall f k W, run_tx f W <> XOutOfFuel -> run_tx (f + k) W = run_tx f W.
Proof. exact run_tx_fuel_mono. Qed.

(* ---- every instruction that lets the frame continue consumes at least one unit of gas, for
   every opcode, hardfork, state and stack (non-negative gas stays non-negative) *)
Theorem C01_instruction_consumes_gas :
  forall W G F I G' I', step W G F I = (G', SNext I') -> 0 <= rem I ->
    Gas.limit (i_gas I') = Gas.limit (i_gas I) /\ 0 <= rem I' /\ rem I' + 1 <= rem I.
Proof. exact step_next_gas. Qed.

(* CALL family: what the caller keeps plus what the callee receives (the 2300 stipend included)
   is strictly less than what the caller had; same for CREATE / CREATE2 *)
Theorem C01_call_hands_over_less_than_it_has :
  forall W G F I G' c I', step W G F I = (G', SCall c I') -> 0 <= rem I ->
    Gas.limit (i_gas I') = Gas.limit (i_gas I) /\ 0 <= rem I' /\ 0 <= cq_gas_limit c /\
    rem I' + cq_gas_limit c + 1 <= rem I.
Proof. exact step_call_gas. Qed.
Theorem C01_create_hands_over_less_than_it_has :
  forall W G F I G' c I', step W G F I = (G', SCreate c I') -> 0 <= rem I ->
    Gas.limit (i_gas I') = Gas.limit (i_gas I) /\ 0 <= rem I' /\ 0 <= kq_gas_limit c /\
    rem I' + kq_gas_limit c + 1 <= rem I.
Proof. exact step_create_gas. Qed.

(* ---- termination: fuel above the gas of a frame suffices, whatever the program, the state,
   the hardfork and the tree of nested calls and creates it spawns *)
Theorem C01_frame_terminates :
  forall f W G F I, 0 <= rem I -> rem I < Z.of_nat f -> exec f W G F I <> XOutOfFuel.
Proof. exact exec_terminates. Qed.

Theorem C01_tx_terminates :
  forall f W,
    let gl := E.tx_gas_limit (E.e_tx (w_env W)) - fst (E.initial_and_floor (w_spec W) (w_env W)) in
    0 <= gl -> gl < Z.of_nat f -> run_tx f W <> XOutOfFuel.
Proof. exact run_tx_terminates. Qed.

(* ---- gas monotonicity of a frame: a frame whose gas is handed back (success or revert) hands
   back no more than it was given — through nested calls, stipends, precompile results and
   code-deposit charges (C13's invariant lifted to complete executions) *)
Theorem C01_frame_returns_no_more_gas_than_given :
  forall f W G F I G' r, 0 <= rem I -> exec f W G F I = XDone (G', r) -> okrev r = true ->
    0 <= Gas.remaining (ir_gas r) <= rem I.
Proof. exact exec_gas_bound. Qed.

(* ---- the program counter stays inside the padded code [0, len + 32]; the three ways it
   moves are: next instruction, behind PUSH data, or to a destination accepted by C04's check.
   A frame that issues a call / create does so from a position inside the original code. *)
Theorem C01_pc_stays_in_padded_code :
  forall W G code input t c v st I,
    let F := mk_fctx code input t c v st in
    Jump.bytes_ok code -> JumpProofs.code_fits code -> pc_ok code I ->
    match snd (step W G F I) with
    | SNext I' => pc_ok code I'
    | SCall _ I' | SCreate _ I' => i_pc I' = i_pc I /\ i_pc I + 1 <= zlen code
    | _ => True
    end.
Proof. exact step_pc_ok. Qed.

(* ---- C07 lifted: a completed frame leaves the journal depth and the stack of open frame
   checkpoints exactly as it found them, whatever happened inside *)
Theorem C01_frame_restores_depth :
  forall W f G F I G' r, exec f W G F I = XDone (G', r) ->
    Host.depth (gs G') = Host.depth (gs G) /\ snd (g_sc G') = snd (g_sc G).
Proof. exact exec_same_frame. Qed.

(* ---- non-vacuity: a concrete CANCUN world. The contract at 0x1000 stores 3 at memory 0,
   writes storage slot 7, creates a child whose init code returns one byte of runtime code,
   calls it, logs, and returns the memory word. *)
Definition ex_code : list Z :=
  [0x60;1;0x60;2;0x01;0x60;0;0x52;             (* mstore(0, 1+2) *)
   0x60;1;0x60;7;0x55;                         (* sstore(7, 1) *)
   0x64;0x60;0x01;0x60;0x00;0xf3;0x60;32;0x52; (* mstore(32, PUSH1 1 PUSH1 0 RETURN) *)
   0x60;5;0x60;59;0x60;0;0xf0;                 (* create(0, 59, 5) *)
   0x60;0;0x60;0;0x60;0;0x60;0;0x60;0;0x85;0x5a;0xf1;0x50;0x50;  (* call(gas, addr, 0, 0,0,0,0) *)
   0x60;9;0x60;32;0x60;0;0xa1;                 (* log1(0, 32, 9) *)
   0x60;32;0x60;0;0xf3].
Definition ex_world : world :=
  mkW 17 (E.mkEnv (E.mainnet_cfg 1) (E.mkBlock (2^256-1) 0 true (Some 1))
                  (E.mkTx 200000 1 false 0 [] (Some 7) None [] None [] None None))
      0xCA11E4 (Some 0x1000) 0 [] [] [] [] 0xC01BBA5E 100 1700000000 0 0x1234
      [(0x1000, (5, 1, 77)); (0xCA11E4, (10^30, 7, 0))] [] [(77, ex_code)] [].

Example C01_example_runs :
  match run_tx 200 ex_world with
  | XDone r => tr_class r = 0 /\ tr_gas_used r = 76501 /\ tr_out r = to_be 32 3 /\
               length (tr_logs r) = 1%nat /\
               (match H.st (tr_state r) 0x1000 with Some a => H.a_nonce a = 2 | None => False end)
  | _ => False
  end.
Proof. vm_compute. repeat split; reflexivity. Qed.

(* the termination bound is met by the example: 200000 - 21000 < fuel suffices; far less is needed *)
Example C01_example_fuel : run_tx 60 ex_world <> XOutOfFuel /\ run_tx 20 ex_world = XOutOfFuel.
Proof. split; [vm_compute; discriminate|vm_compute; reflexivity]. Qed.

(* ---- C06 lifted (create-free fragment).  [exec_nc] is the interpreter with CREATE / CREATE2
   answered by a distinct marker; whatever it computes the full interpreter computes. *)
Theorem C01_create_free_interpreter_agrees :
  forall W f G F I x, exec_nc f W G F I = XDone x -> exec f W G F I = XDone x.
Proof. exact exec_nc_sound. Qed.

(* the execution of a frame — its own storage / transient / log / balance / self-destruct
   operations and complete nested calls — is a history of journaled-state operations that lies
   inside the C06 contract by its shape (non-negative transfers, no SetCode / Create) and closes
   exactly the checkpoints it opens; the code table does not change *)
Theorem C01_frame_is_a_C06_history :
  forall W f G F I G' r, exec_nc f W G F I = XDone (G', r) ->
    g_codes G' = g_codes G /\
    exists h, Forall okhop h /\ wbh 0 h = Some 0%nat /\ Host.run_hops (gdb W G) (g_sc G) h = Some (g_sc G').
Proof. exact exec_nc_seg. Qed.

(* partial: create-free fragment, and the case where the call opens a child frame (the failures
   decided inside make_call_frame itself — depth, funds, precompile failure — are C07's theorems).
   A child that does not end ok leaves the caller with the observation it had when the
   checkpoint was taken (right after the callee was loaded): every account and slot, transient
   storage, logs, journal, depth, and the stack of open checkpoints. *)
Theorem C01_failed_child_restores_view_partial :
  forall W f G c G' r s0 sc1 cp,
    let d := gdb W G in
    HostRevert.Inv d s0 (gs G) (snd (g_sc G)) ->
    (cq_transfers c = true -> 0 <= cq_value c) ->
    Frames.make_call_frame d (g_sc G) (call_inputs_of W c) = Some (sc1, Frames.FFrame cp) ->
    do_call W (exec_nc f W) G c = XDone (G', r) -> is_ok (ir_res r) = false ->
    let s_ld := fst (fst (fst (Host.load_account_delegated d (gs G) (cq_bytecode c)))) in
    HostView.cview_of d (gs G') = HostView.cview_of d s_ld /\ Host.logs (gs G') = Host.logs s_ld /\
    Host.journal (gs G') = Host.journal s_ld /\ Host.depth (gs G') = Host.depth s_ld /\
    snd (g_sc G') = snd (g_sc G).
Proof. exact failed_child_restores_view. Qed.

(* non-vacuity: 0x2000 writes storage, logs and reverts; called from the start state of a
   transaction the hypotheses hold and the child's result is a revert *)
Definition ex2_code : list Z := [0x60;1;0x60;0;0x55; 0x60;0;0x60;0;0xa0; 0x60;0;0x60;0;0xfd].
Definition ex2_world : world :=
  mkW 17 (E.mkEnv (E.mainnet_cfg 1) (E.mkBlock (2^256-1) 0 true (Some 1))
                  (E.mkTx 200000 1 false 0 [] (Some 7) None [] None [] None None))
      0xCA11E4 (Some 0x1000) 0 [] [] [] [] 0xC01BBA5E 100 1700000000 0 0x1234
      [(0x2000, (0, 1, 78)); (0xCA11E4, (10^30, 7, 0))] [] [(78, ex2_code)] [].
Definition ex2_call : callreq := mkCall SchCall 100000 0x2000 0x1000 0x2000 0 true false [] 0 0.
Example C01_failed_child_hypotheses_satisfiable :
  let G := gstate_new ex2_world in
  FramesProofs.tx_start (gdb ex2_world G) (gs G) /\
  (match Frames.make_call_frame (gdb ex2_world G) (g_sc G) (call_inputs_of ex2_world ex2_call) with
   | Some (_, Frames.FFrame _) => True | _ => False end) /\
  (match do_call ex2_world (exec_nc 40 ex2_world) G ex2_call with
   | XDone (_, r) => ir_res r = R_Revert | _ => False end).
Proof.
  split; [|split].
  - split; [|split; reflexivity]. split; [split|split].
    + intros a acc H. discriminate.
    + intros a b n c. cbn [gdb the_db Host.db_basic]. unfold ex2_world. cbn [w_accounts acc_lookup].
      destruct (0x2000 =? a); [intros [= <- _ _]; unfold_pows; lia|].
      destruct (0xCA11E4 =? a); [intros [= <- _ _]; unfold_pows; lia|discriminate].
    + intros a acc H. discriminate.
    + cbn. congruence.
  - vm_compute. exact Logic.I.
  - vm_compute. reflexivity.
Qed.
