(* C19 — executing on top of a preloaded bundle equals executing on the merged state.
   Only statements; proofs in Proofs/PreloadProofs.v (which builds on the C15 refinement). *)
From RevmV Require Import Model.AcctStatus Model.StateDb Model.Preload Spec.PlainStateSpec
  Proofs.StateDbProofs Proofs.PreloadProofs.
Local Open Scope Z_scope.

(* For every database account [d] and bundle account [b] (well-formed: status consistent with the
   presence of info; storage that the status claims fully known is either wiped or there is
   nothing else in the database; no storage under an account without code and nonce):
   the cache account built from the bundle (From<BundleAccount> for CacheAccount, over database
   [d]) and the cache account loaded from the merged database [d (+) changeset b] satisfy the
   C15 invariant w.r.t. the SAME reference account. *)
Theorem C19_preload_establishes_the_same_reference :
  forall (d : option dbacc) (b : bacc),
    BundleAccOK d b ->
    let d' := apply_bundle_acc d b in
    let r := option_map ref_of_dbacc d' in
    Inv (ds_of d) (cacc_of_bundle b) r /\ Inv (ds_of d') (load_acc d') r.
Proof. exact preload_inv. Qed.

(* ... hence every read agrees, immediately and after ANY further history of commits (either
   state-clear setting), increments, drains and reads satisfying EvmOutOK; both runs are
   defined (no panicking status cell). *)
Theorem C19_reads_agree_after_any_history :
  forall (d : option dbacc) (b : bacc) (h : list aop),
    BundleAccOK d b ->
    let d' := apply_bundle_acc d b in
    let r := option_map ref_of_dbacc d' in
    hist_ok r h ->
    exists cA cB,
      acc_run (ds_of d) (cacc_of_bundle b) h = Some cA /\
      acc_run (ds_of d') (load_acc d') h = Some cB /\
      oinfo_same (cacc_basic cA) (ref_basic (spec_run r h)) /\
      oinfo_same (cacc_basic cB) (ref_basic (spec_run r h)) /\
      forall k, snd (cacc_storage (ds_of d) cA k) = snd (cacc_storage (ds_of d') cB k).
Proof. exact preload_agree. Qed.

(* the merged database answers per address what the changeset says *)
Theorem C19_merged_database_lookup :
  forall D B Bc a,
    aget a (db_accounts (apply_bundle_db D B Bc)) = merged_acc D B a /\
    (forall k, db_storage (apply_bundle_db D B Bc) a k = ds_of (merged_acc D B a) k).
Proof. intros. split; [apply merged_lookup|intro; apply merged_storage]. Qed.

(* the two freshly built States: basic, storage and code_by_hash agree for every address, slot
   and hash *)
Theorem C19_fresh_states_agree :
  forall D clear B Bc a,
    BundleOK D B Bc ->
    let sA := state_with_bundle D clear B Bc in
    let sB := state_new (apply_bundle_db D B Bc) clear in
    oinfo_same (snd (st_basic sA a)) (snd (st_basic sB a)) /\
    (forall k sA' vA sB' vB,
       st_storage (fst (st_basic sA a)) a k = Some (sA', vA) ->
       st_storage (fst (st_basic sB a)) a k = Some (sB', vB) -> vA = vB) /\
    (forall h, snd (st_code_by_hash sA h) = snd (st_code_by_hash sB h)).
Proof. exact fresh_reads_agree. Qed.

(* without the "nothing else in the database" clause the statement is false: a bundle account
   that claims fully known storage (InMemoryChange) over a database that still holds slot 1 *)
Theorem C19_known_storage_clause_needed_refuted :
  exists (d : dbacc) (b : bacc) (k : Z),
    snd (cacc_storage (ds_of (Some d)) (cacc_of_bundle b) k)
    <> snd (cacc_storage (ds_of (apply_bundle_acc (Some d) b)) (load_acc (apply_bundle_acc (Some d) b)) k).
Proof.
  exists (mkDbAcc (mkInfo 1 1 0x77 None) [(1, 9)]),
         (mkBacc (Some (mkInfo 2 1 0x77 None)) [] InMemoryChange), 1.
  vm_compute. discriminate.
Qed.

(* non-vacuity: a bundle with a destroyed-and-recreated contract, a changed contract, a new
   account and a removed one *)
Example C19_BundleOK_satisfiable :
  let D := mkDb [(0xc1, mkDbAcc (mkInfo 0 1 0x11 None) [(1, 7); (2, 9)]);
                 (0xc2, mkDbAcc (mkInfo 9 1 0x22 None) [(1, 5)]);
                 (0xa4, mkDbAcc (mkInfo 3 0 KECCAK_EMPTY None) [])] [(0x11, 0x0160); (0x22, 0x0161)] in
  let B := [(0xc1, mkBacc (Some (mkInfo 0 1 0x11 None)) [mkSlot 1 7 0; mkSlot 3 0 4] Changed);
            (0xc2, mkBacc (Some (mkInfo 0 1 0x33 (Some 0x0162))) [mkSlot 4 0 6] DestroyedChanged);
            (0xa4, mkBacc None [] Destroyed);
            (0xa5, mkBacc (Some (mkInfo 5 0 KECCAK_EMPTY None)) [] InMemoryChange)] in
  BundleOK D B [(0x33, 0x0162)] /\
  snd (st_basic (state_new (apply_bundle_db D B [(0x33, 0x0162)]) true) 0xc2) = Some (mkInfo 0 1 0x33 (Some 0x0162)).
Proof.
  split; [|reflexivity]. split.
  - intros a b H. simpl in H.
    Ltac c19_fin := vm_compute; repeat split; intros; try discriminate; try reflexivity; try tauto; try contradiction.
    destruct (a =? 193) eqn:E1; [apply Z.eqb_eq in E1; subst a; inversion H; subst b; clear H; c19_fin|].
    destruct (a =? 194) eqn:E2; [apply Z.eqb_eq in E2; subst a; inversion H; subst b; clear H; c19_fin|].
    destruct (a =? 164) eqn:E3; [apply Z.eqb_eq in E3; subst a; inversion H; subst b; clear H; c19_fin|].
    destruct (a =? 165) eqn:E4; [apply Z.eqb_eq in E4; subst a; inversion H; subst b; clear H; c19_fin|].
    discriminate.
  - intros c H. vm_compute in H. discriminate.
Qed.
