(* C04 — JUMP / JUMPI succeed exactly onto a JUMPDEST byte of the code that is an instruction
   start (not inside the immediate data of a preceding PUSH); otherwise InvalidJump.
   Only statements; proofs live in Proofs/JumpProofs.v.
   Hypotheses: [bytes_ok code] (every element is a byte), [code_fits code] (length + 33 <= 2^64:
   the padded code is addressable by usize; Rust allocations are < 2^63 bytes). *)
From RevmV Require Import Base.Word Model.Jump Spec.JumpSpec Proofs.JumpProofs.
Local Open Scope Z_scope.

(* Main theorem: for every byte string and every 256-bit target, the check performed by
   jump_inner on the analysed code accepts exactly the valid destinations
   (ValidDest code t := 0 <= t < length code /\ code[t] = 0x5b /\ InstrStart code t). *)
Theorem C04_jump_ok_iff :
  forall (code : list Z) (t : Z),
    bytes_ok code -> code_fits code -> 0 <= t < pow256 ->
    (jump_ok (to_analysed (LegacyRaw code)) t = true <->
     0 <= t < Z.of_nat (length code) /\ nth (Z.to_nat t) code 0 = 0x5b /\
     InstrStart code (Z.to_nat t)).
Proof. exact jump_ok_iff. Qed.

(* The same in the property's words: "not part of the immediate data of a preceding PUSH". *)
Theorem C04_jump_ok_iff_not_push_data :
  forall (code : list Z) (t : Z),
    bytes_ok code -> code_fits code -> 0 <= t < pow256 ->
    (jump_ok (to_analysed (LegacyRaw code)) t = true <->
     0 <= t < zlen code /\ nth (Z.to_nat t) code 0 = 0x5b /\ ~ InPushData code (Z.to_nat t)).
Proof. exact jump_ok_iff_words. Qed.

Theorem C04_instr_start_iff_not_push_data :
  forall (code : list Z) (t : nat),
    (t < length code)%nat -> (InstrStart code t <-> ~ InPushData code t).
Proof. exact IS_iff_not_push_data. Qed.

(* JUMP: continue at the target, or InvalidJump — nothing else *)
Theorem C04_op_jump :
  forall (code : list Z) (pc t : Z),
    bytes_ok code -> code_fits code -> 0 <= t < pow256 ->
    (ValidDest code t /\ op_jump (to_analysed (LegacyRaw code)) pc t = JContinue t) \/
    (~ ValidDest code t /\ op_jump (to_analysed (LegacyRaw code)) pc t = JInvalidJump).
Proof. exact op_jump_spec. Qed.

(* JUMPI: condition 0 falls through without looking at the target *)
Theorem C04_op_jumpi :
  forall (code : list Z) (pc t c : Z),
    bytes_ok code -> code_fits code -> 0 <= t < pow256 ->
    (c = 0 /\ op_jumpi (to_analysed (LegacyRaw code)) pc t c = JContinue (pc + 1)) \/
    (c <> 0 /\ ValidDest code t /\ op_jumpi (to_analysed (LegacyRaw code)) pc t c = JContinue t) \/
    (c <> 0 /\ ~ ValidDest code t /\ op_jumpi (to_analysed (LegacyRaw code)) pc t c = JInvalidJump).
Proof. exact op_jumpi_spec. Qed.

(* Targets at or beyond the original length (the 33 padding bytes, and everything above up to
   2^256 - 1) are invalid although the bit vector is 33 bits longer than the code. *)
Theorem C04_padding_targets_invalid :
  forall (code : list Z) (t : Z),
    bytes_ok code -> code_fits code -> zlen code <= t < pow256 ->
    jump_ok (to_analysed (LegacyRaw code)) t = false.
Proof. exact padding_targets_invalid. Qed.

(* Truncated trailing PUSH data: if the instruction at |pre| is [o] and the code ends within its
   immediate data, no later position is a destination. *)
Theorem C04_truncated_push_no_dest :
  forall (pre : list Z) (o : Z) (data : list Z) (t : Z),
    bytes_ok (pre ++ o :: data) -> code_fits (pre ++ o :: data) ->
    InstrStart (pre ++ o :: data) (length pre) ->
    (length data <= pushlen o)%nat ->
    zlen pre < t < pow256 ->
    jump_ok (to_analysed (LegacyRaw (pre ++ o :: data))) t = false.
Proof. exact truncated_push_no_dest. Qed.

(* Analysing analysed code is the identity; lazy (Contract::new) = eager analysis. *)
Theorem C04_reanalysis_identity :
  forall bc, to_analysed (to_analysed bc) = to_analysed bc.
Proof. exact to_analysed_idem. Qed.

Theorem C04_lazy_eq_eager :
  forall bc t, is_valid_jump (contract_new (to_analysed bc)) t = is_valid_jump (contract_new bc) t.
Proof. exact lazy_eq_eager. Qed.

(* The analysed value keeps the original length; bytes and bit vector have the padded length. *)
Theorem C04_analysed_shape :
  forall code, exists a,
    to_analysed (LegacyRaw code) = LegacyAnalyzed a /\
    la_bytecode a = code ++ padding /\ la_original_len a = zlen code /\
    zlen (la_jump_table a) = zlen code + 33.
Proof. exact to_analysed_shape. Qed.

(* The boolean oracle used by the correspondence check computes exactly the specification. *)
Theorem C04_oracle_is_spec :
  forall (code : list Z) (j : nat),
    nth j (valid_dests code) false = true <->
    (j < length code)%nat /\ nth j code 0 = 0x5b /\ InstrStart code j.
Proof. exact valid_dests_spec. Qed.

(* non-vacuity: PUSH1 5b, JUMPDEST, PUSH32 5b (truncated): only position 2 is a destination *)
Definition ex_code : list Z := [0x60; 0x5b; 0x5b; 0x7f; 0x5b].
Example C04_example :
  bytes_ok ex_code /\ code_fits ex_code /\
  map (jump_ok (to_analysed (LegacyRaw ex_code))) [0; 1; 2; 3; 4; 5; 37; 38; pow64; pow256 - 1] =
    [false; false; true; false; false; false; false; false; false; false] /\
  ValidDest ex_code 2 /\ InPushData ex_code 1 /\ InPushData ex_code 4.
Proof.
  assert (L : length ex_code = 5%nat) by reflexivity.
  split; [repeat constructor; unfold byte_ok; lia|].
  split; [unfold code_fits, zlen, pow64; rewrite L; lia|].
  split; [vm_compute; reflexivity|].
  assert (S2 : InstrStart ex_code 2).
  { change 2%nat with (0 + 1 + pushlen (nth 0 ex_code 0%Z))%nat.
    apply IS_next; [constructor|rewrite L; lia]. }
  split; [|split].
  - split; [rewrite L; lia|]. split; [reflexivity|exact S2].
  - exists 0%nat. split; [constructor|]. split; [rewrite L; lia|].
    change (pushlen (nth 0 ex_code 0)) with 1%nat. lia.
  - exists 3%nat. split; [|split; [rewrite L; lia|
      change (pushlen (nth 3 ex_code 0)) with 32%nat; lia]].
    change 3%nat with (2 + 1 + pushlen (nth 2 ex_code 0%Z))%nat.
    apply IS_next; [exact S2|rewrite L; lia].
Qed.

(* ================================================================ composition with the reference
   interpreter of C01 (Model/Step.v + Model/Evm.v, which executes JUMP / JUMPI through
   Model/Jump.v).  Proofs in Proofs/EvmMiscProofs.v.
   [code_ok F]: the frame holds its code as Contract::new does (lazy analysis of the raw bytes —
   true of every frame the interpreter builds, see [call_child] / [create_child]) and the code
   satisfies the hypotheses of the theorems above (bytes, length + 33 <= 2^64).
   [reach W f G F I Gx Fx Ix]: the run [exec f W G F I] executes an instruction from the state
   (Gx, Fx, Ix), of the frame itself or of a frame nested at any depth below it. *)
From RevmV Require Import Model.Step Model.Evm Proofs.EvmProofs Proofs.EvmMiscProofs.

(* JUMP as the interpreter executes it: the frame continues exactly onto a valid destination of
   its own code (inside the code, byte 0x5b, instruction start) with the target popped; InvalidJump
   exactly for a target that is not one; the remaining outcomes are stack underflow, out of gas
   and the hardfork gate; the transaction state is untouched in every case *)
Theorem C04_interpreter_jump :
  forall W G F I G' x,
    code_ok F -> opcode_at F (i_pc I) = 0x56 -> step W G F I = (G', x) ->
    G' = G /\
    match x with
    | SNext I' =>
        exists t r, i_stk I = t :: r /\ ValidDest (f_code F) t /\ i_pc I' = t /\ i_stk I' = r /\
                    i_mem I' = i_mem I /\ i_rd I' = i_rd I
    | SEnd res out I' =>
        out = [] /\
        (res = R_InvalidJump -> exists t r, i_stk I = t :: r /\ ~ ValidDest (f_code F) t) /\
        (res = R_StackUnderflow -> i_stk I = []) /\
        (res = R_InvalidJump \/ res = R_StackUnderflow \/ res = R_OutOfGas \/ res = R_NotActivated)
    | _ => False
    end.
Proof. exact step_jump_spec. Qed.

(* JUMPI: condition 0 falls through without validating the target; a taken JUMPI is a JUMP *)
Theorem C04_interpreter_jumpi :
  forall W G F I G' x,
    code_ok F -> opcode_at F (i_pc I) = 0x57 -> step W G F I = (G', x) ->
    G' = G /\
    match x with
    | SNext I' =>
        exists t c r, i_stk I = t :: c :: r /\ i_stk I' = r /\ i_mem I' = i_mem I /\ i_rd I' = i_rd I /\
          ((c = 0 /\ i_pc I' = i_pc I + 1) \/ (c <> 0 /\ ValidDest (f_code F) t /\ i_pc I' = t))
    | SEnd res out I' =>
        out = [] /\
        (res = R_InvalidJump -> exists t c r, i_stk I = t :: c :: r /\ c <> 0 /\ ~ ValidDest (f_code F) t) /\
        (res = R_StackUnderflow -> (length (i_stk I) < 2)%nat) /\
        (res = R_InvalidJump \/ res = R_StackUnderflow \/ res = R_OutOfGas \/ res = R_NotActivated)
    | _ => False
    end.
Proof. exact step_jumpi_spec. Qed.

(* one instruction — any opcode — moves the program counter from an instruction start of the
   padded code to an instruction start; a call / create resumes at one *)
Theorem C04_interpreter_step_keeps_instruction_start :
  forall W G F I,
    code_ok F -> pc_start F I ->
    match snd (step W G F I) with
    | SNext I' => pc_start F I'
    | SCall _ I' | SCreate _ I' => i_pc I' = i_pc I /\ pc_start F (set_pc I' (i_pc I' + 1))
    | _ => True
    end.
Proof. exact step_pc_start. Qed.

(* along a whole run, nested calls and creates included, every instruction is executed from an
   instruction start (Spec/JumpSpec.v InstrStart) of the padded code of the frame executing it *)
Theorem C04_interpreter_pc_is_instruction_start :
  forall W f G F I Gx Fx Ix,
    reach W f G F I Gx Fx Ix -> (code_ok F -> pc_start F I) -> code_ok Fx ->
    pc_ok (f_code Fx) Ix /\ InstrStart (f_code Fx ++ padding) (Z.to_nat (i_pc Ix)).
Proof. exact reach_pc_start. Qed.

(* the same in the property's words: an executed position inside the code is an instruction start
   of the code itself and not PUSH data; an executed position beyond it is padding, i.e. STOP *)
Theorem C04_interpreter_pc_not_in_push_data :
  forall W f G F I Gx Fx Ix,
    reach W f G F I Gx Fx Ix -> (code_ok F -> pc_start F I) -> code_ok Fx ->
    0 <= i_pc Ix <= Step.zlen (f_code Fx) + 32 /\
    (i_pc Ix < Step.zlen (f_code Fx) ->
       InstrStart (f_code Fx) (Z.to_nat (i_pc Ix)) /\ ~ InPushData (f_code Fx) (Z.to_nat (i_pc Ix))) /\
    (Step.zlen (f_code Fx) <= i_pc Ix -> opcode_at Fx (i_pc Ix) = 0).
Proof. exact reach_pc_not_push_data. Qed.

(* [reach] covers the run: the instruction a completed frame ends with is executed from a state
   of [reach] (so, e.g., an InvalidJump result comes from a JUMP / JUMPI covered by the theorems above) *)
Theorem C04_interpreter_reach_covers_frame_end :
  forall W f G F I G' r,
    exec f W G F I = XDone (G', r) ->
    exists Gx Ix Ix', reach W f G F I Gx F Ix /\
                      step W Gx F Ix = (G', SEnd (ir_res r) (ir_out r) Ix') /\ ir_gas r = i_gas Ix'.
Proof. exact exec_end_reached. Qed.

(* every frame starts at an instruction start, and the frames the interpreter opens hold lazily
   analysed raw code *)
Theorem C04_interpreter_frames_start_ok :
  forall W G Gc Fc Ic,
    (forall c, call_child W G c = Some (Gc, Fc, Ic) ->
       pc_start Fc Ic /\ f_bc Fc = contract_new (LegacyRaw (f_code Fc))) /\
    (forall c, create_child W G c = Some (Gc, Fc, Ic) ->
       pc_start Fc Ic /\ f_bc Fc = contract_new (LegacyRaw (f_code Fc))).
Proof.
  intros W G Gc Fc Ic. split; intros c E; [apply call_child_new in E|apply create_child_new in E];
    destruct E as [-> E]; (split; [apply pc_start_new|exact E]).
Qed.

(* non-vacuity: PUSH1 4; JUMP; JUMPDEST; JUMPDEST; STOP — the hypotheses hold, the jump to 4 is
   taken, a jump to 1 (PUSH data) is refused, and the run reaches the state after the jump *)
Definition ex_jcode : list Z := [0x60; 0x04; 0x56; 0x5b; 0x5b; 0x00].
Example C04_interpreter_example :
  let W := mx_world ex_jcode in let F := mx_frame ex_jcode in let G := gstate_new W in
  code_ok F /\ pc_start F (istate_new 100) /\
  (exists I', step W G F (mkI 2 [4] M.mem_new (Gas.gas_new 100) []) = (G, SNext I') /\ i_pc I' = 4) /\
  (exists I', step W G F (mkI 2 [1] M.mem_new (Gas.gas_new 100) []) = (G, SEnd R_InvalidJump [] I')) /\
  reach W 3 G F (istate_new 100) G F (mkI 4 [] M.mem_new (Gas.mkGas 100 89 0) []).
Proof.
  intros W F G. split; [|split; [apply pc_start_new|split; [|split]]].
  - split; [reflexivity|]. split; [repeat constructor; unfold byte_ok; lia|].
    unfold code_fits, Jump.zlen, pow64. cbn. lia.
  - eexists. split; [vm_compute; reflexivity|reflexivity].
  - eexists. vm_compute. reflexivity.
  - eapply RNext; [vm_compute; reflexivity|]. eapply RNext; [vm_compute; reflexivity|]. apply RHere.
Qed.
