(* C04 — JUMP / JUMPI succeed exactly onto a JUMPDEST byte of the code that is an instruction
   start (not inside the immediate data of a preceding PUSH); otherwise InvalidJump.
   Only statements; proofs live in Proofs/JumpProofs.v.
   Hypotheses: [bytes_ok code] (every element is a byte), [code_fits code] (length + 33 <= 2^64:
   the padded code is addressable by usize; Rust allocations are < 2^63 bytes). *)
From RevmV Require Import Base.Word Model.Jump Spec.JumpSpec Proofs.JumpProofs.
Local Open Scope Z_scope.

(* Main theorem: for every byte string and every 256-bit target, the check performed by
   jump_inner on the analysed code accepts exactly the valid destinations
   (ValidDest code t := 0 <= t < length code /\ code[t] = 0x5b /\ InstrStart code t). *)
Theorem C04_jump_ok_iff :
  forall (code : list Z) (t : Z),
    bytes_ok code -> code_fits code -> 0 <= t < pow256 ->
    (jump_ok (to_analysed (LegacyRaw code)) t = true <->
     0 <= t < Z.of_nat (length code) /\ nth (Z.to_nat t) code 0 = 0x5b /\
     InstrStart code (Z.to_nat t)).
Proof. exact jump_ok_iff. Qed.

(* The same in the property's words: "not part of the immediate data of a preceding PUSH". *)
Theorem C04_jump_ok_iff_not_push_data :
  forall (code : list Z) (t : Z),
    bytes_ok code -> code_fits code -> 0 <= t < pow256 ->
    (jump_ok (to_analysed (LegacyRaw code)) t = true <->
     0 <= t < zlen code /\ nth (Z.to_nat t) code 0 = 0x5b /\ ~ InPushData code (Z.to_nat t)).
Proof. exact jump_ok_iff_words. Qed.

Theorem C04_instr_start_iff_not_push_data :
  forall (code : list Z) (t : nat),
    (t < length code)%nat -> (InstrStart code t <-> ~ InPushData code t).
Proof. exact IS_iff_not_push_data. Qed.

(* JUMP: continue at the target, or InvalidJump — nothing else *)
Theorem C04_op_jump :
  forall (code : list Z) (pc t : Z),
    bytes_ok code -> code_fits code -> 0 <= t < pow256 ->
    (ValidDest code t /\ op_jump (to_analysed (LegacyRaw code)) pc t = JContinue t) \/
    (~ ValidDest code t /\ op_jump (to_analysed (LegacyRaw code)) pc t = JInvalidJump).
Proof. exact op_jump_spec. Qed.

(* JUMPI: condition 0 falls through without looking at the target *)
Theorem C04_op_jumpi :
  forall (code : list Z) (pc t c : Z),
    bytes_ok code -> code_fits code -> 0 <= t < pow256 ->
    (c = 0 /\ op_jumpi (to_analysed (LegacyRaw code)) pc t c = JContinue (pc + 1)) \/
    (c <> 0 /\ ValidDest code t /\ op_jumpi (to_analysed (LegacyRaw code)) pc t c = JContinue t) \/
    (c <> 0 /\ ~ ValidDest code t /\ op_jumpi (to_analysed (LegacyRaw code)) pc t c = JInvalidJump).
Proof. exact op_jumpi_spec. Qed.

(* Targets at or beyond the original length (the 33 padding bytes, and everything above up to
   2^256 - 1) are invalid although the bit vector is 33 bits longer than the code. *)
Theorem C04_padding_targets_invalid :
  forall (code : list Z) (t : Z),
    bytes_ok code -> code_fits code -> zlen code <= t < pow256 ->
    jump_ok (to_analysed (LegacyRaw code)) t = false.
Proof. exact padding_targets_invalid. Qed.

(* Truncated trailing PUSH data: if the instruction at |pre| is [o] and the code ends within its
   immediate data, no later position is a destination. *)
Theorem C04_truncated_push_no_dest :
  forall (pre : list Z) (o : Z) (data : list Z) (t : Z),
    bytes_ok (pre ++ o :: data) -> code_fits (pre ++ o :: data) ->
    InstrStart (pre ++ o :: data) (length pre) ->
    (length data <= pushlen o)%nat ->
    zlen pre < t < pow256 ->
    jump_ok (to_analysed (LegacyRaw (pre ++ o :: data))) t = false.
Proof. exact truncated_push_no_dest. Qed.

(* Analysing analysed code is the identity; lazy (Contract::new) = eager analysis. *)
Theorem C04_reanalysis_identity :
  forall bc, to_analysed (to_analysed bc) = to_analysed bc.
Proof. exact to_analysed_idem. Qed.

Theorem C04_lazy_eq_eager :
  forall bc t, is_valid_jump (contract_new (to_analysed bc)) t = is_valid_jump (contract_new bc) t.
Proof. exact lazy_eq_eager. Qed.

(* The analysed value keeps the original length; bytes and bit vector have the padded length. *)
Theorem C04_analysed_shape :
  forall code, exists a,
    to_analysed (LegacyRaw code) = LegacyAnalyzed a /\
    la_bytecode a = code ++ padding /\ la_original_len a = zlen code /\
    zlen (la_jump_table a) = zlen code + 33.
Proof. exact to_analysed_shape. Qed.

(* The boolean oracle used by the correspondence check computes exactly the specification. *)
Theorem C04_oracle_is_spec :
  forall (code : list Z) (j : nat),
    nth j (valid_dests code) false = true <->
    (j < length code)%nat /\ nth j code 0 = 0x5b /\ InstrStart code j.
Proof. exact valid_dests_spec. Qed.

(* non-vacuity: PUSH1 5b, JUMPDEST, PUSH32 5b (truncated): only position 2 is a destination *)
Definition ex_code : list Z := [0x60; 0x5b; 0x5b; 0x7f; 0x5b].
Example C04_example :
  bytes_ok ex_code /\ code_fits ex_code /\
  map (jump_ok (to_analysed (LegacyRaw ex_code))) [0; 1; 2; 3; 4; 5; 37; 38; pow64; pow256 - 1] =
    [false; false; true; false; false; false; false; false; false; false] /\
  ValidDest ex_code 2 /\ InPushData ex_code 1 /\ InPushData ex_code 4.
Proof.
  assert (L : length ex_code = 5%nat) by reflexivity.
  split; [repeat constructor; unfold byte_ok; lia|].
  split; [unfold code_fits, zlen, pow64; rewrite L; lia|].
  split; [vm_compute; reflexivity|].
  assert (S2 : InstrStart ex_code 2).
  { change 2%nat with (0 + 1 + pushlen (nth 0 ex_code 0%Z))%nat.
    apply IS_next; [constructor|rewrite L; lia]. }
  split; [|split].
  - split; [rewrite L; lia|]. split; [reflexivity|exact S2].
  - exists 0%nat. split; [constructor|]. split; [rewrite L; lia|].
    change (pushlen (nth 0 ex_code 0)) with 1%nat. lia.
  - exists 3%nat. split; [|split; [rewrite L; lia|
      change (pushlen (nth 3 ex_code 0)) with 32%nat; lia]].
    change 3%nat with (2 + 1 + pushlen (nth 2 ex_code 0%Z))%nat.
    apply IS_next; [exact S2|rewrite L; lia].
Qed.
