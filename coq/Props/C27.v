(* C27 — stored bytecode keeps its original bytes, length and hash; jump analysis never changes
   the original bytes; an EIP-7702 designator decodes to the address it was built from and
   re-encodes to the same 23 bytes.  Only statements; proofs in Proofs/BytecodeProofs.v.
   [dec] stands for "Eof::decode succeeds on these bytes" (the EOF codec is property C26);
   every statement holds for every such predicate. keccak256 is Base/Keccak.v. *)
From RevmV Require Import Model.Bytecode Proofs.BytecodeProofs.
Local Open Scope Z_scope.

(* classification by the first two bytes *)
Theorem C27_classification :
  forall (dec : list Z -> bool) (b : list Z),
    new_raw_checked dec b =
    if starts_with b [0xef; 0x00] then (if dec b then inl (Eof b) else inr ErrEof)
    else if starts_with b [0xef; 0x01] then
      match eip7702_new_raw b with inl e => inl (Eip7702 e) | inr err => inr (ErrEip7702 err) end
    else inl (LegacyRaw b).
Proof. exact new_raw_checked_spec. Qed.

(* whatever value is built from bytes b reports exactly b and its length — all variants *)
Theorem C27_built_value_keeps_bytes :
  forall (dec : list Z -> bool) (b : list Z) (bc : bytecode),
    new_raw_checked dec b = inl bc ->
    original_bytes bc = b /\ original_byte_slice bc = b /\ bc_len bc = zlen b.
Proof. exact new_raw_checked_keeps_bytes. Qed.

Theorem C27_new_legacy_keeps_bytes :
  forall b, original_bytes (new_legacy b) = b /\ original_byte_slice (new_legacy b) = b /\
            bc_len (new_legacy b) = zlen b.
Proof. exact new_legacy_bytes. Qed.

(* jump analysis never changes original bytes, length or hash (every variant); the analysed
   legacy value carries the 33 padding bytes only in bytes() *)
Theorem C27_analysis_preserves_bytes :
  forall bc, original_bytes (to_analysed bc) = original_bytes bc /\
             bc_len (to_analysed bc) = bc_len bc /\
             hash_slow (to_analysed bc) = hash_slow bc.
Proof. intros bc. split; [apply to_analysed_original_bytes|].
  split; [apply to_analysed_len|apply to_analysed_hash]. Qed.

Theorem C27_analysed_bytes_padded :
  forall b, bc_bytes (to_analysed (LegacyRaw b)) = b ++ repeat 0 33 /\
            original_bytes (to_analysed (LegacyRaw b)) = b.
Proof. intros b. split; [reflexivity|apply (to_analysed_original_bytes (LegacyRaw b))]. Qed.

(* hash: the code's case split, and the empty-code constant is keccak256 of the empty string,
   so the hash is keccak256 of the original bytes for every value *)
Theorem C27_hash_slow :
  forall bc, hash_slow bc = if bc_len bc =? 0 then KECCAK_EMPTY else keccak256 (original_bytes bc).
Proof. exact hash_slow_spec. Qed.

Theorem C27_keccak_empty : KECCAK_EMPTY = keccak256 [].
Proof. exact keccak_empty_eq. Qed.

Theorem C27_hash_is_keccak_of_original :
  forall bc, hash_slow bc = keccak256 (original_bytes bc).
Proof. exact hash_slow_keccak. Qed.

(* EIP-7702 *)
Theorem C27_7702_new :
  forall a, length a = 20%nat ->
    eip7702_raw (eip7702_new a) = [0xef; 0x01; 0x00] ++ a /\
    zlen (eip7702_raw (eip7702_new a)) = 23 /\
    eip7702_address (eip7702_new a) = a /\
    eip7702_new_raw (eip7702_raw (eip7702_new a)) = inl (eip7702_new a).
Proof. intros a Ha. split; [reflexivity|]. split; [apply eip7702_new_len; exact Ha|].
  split; [reflexivity|apply eip7702_roundtrip; exact Ha]. Qed.

Theorem C27_7702_decode_ok_iff :
  forall raw e,
    eip7702_new_raw raw = inl e <->
    exists a, length a = 20%nat /\ raw = [0xef; 0x01; 0x00] ++ a /\ e = eip7702_new a.
Proof. exact eip7702_new_raw_ok. Qed.

Theorem C27_7702_decode_reencode :
  forall raw e,
    eip7702_new_raw raw = inl e ->
    eip7702_raw e = raw /\ eip7702_new (eip7702_address e) = e /\
    eip7702_raw (eip7702_new (eip7702_address e)) = raw /\ length (eip7702_address e) = 20%nat.
Proof. exact eip7702_decode_reencode. Qed.

Theorem C27_7702_invalid_length :
  forall raw, eip7702_new_raw raw = inr InvalidLength <-> zlen raw <> 23.
Proof. exact eip7702_new_raw_invalid_length. Qed.

Theorem C27_7702_invalid_magic :
  forall raw, eip7702_new_raw raw = inr InvalidMagic <->
              zlen raw = 23 /\ starts_with raw [0xef; 0x01] = false.
Proof. exact eip7702_new_raw_invalid_magic. Qed.

Theorem C27_7702_unsupported_version :
  forall raw, eip7702_new_raw raw = inr UnsupportedVersion <->
              zlen raw = 23 /\ starts_with raw [0xef; 0x01] = true /\ nth 2 raw 0 <> 0.
Proof. exact eip7702_new_raw_unsupported. Qed.

Theorem C27_7702_through_bytecode :
  forall (dec : list Z -> bool) a, length a = 20%nat ->
    new_raw_checked dec ([0xef; 0x01; 0x00] ++ a) = inl (new_eip7702 a).
Proof. exact new_raw_checked_designator. Qed.

(* known vectors of the Gallina keccak256 (more in Base/Keccak.v) and a concrete designator *)
Example C27_keccak_vectors :
  be_word (keccak256 []) = 0xc5d2460186f7233c927e7db2dcc703c0e500b653ca82273b7bfad8045d85a470 /\
  be_word (keccak256 [0x61; 0x62; 0x63]) =
    0x4e03657aea45a94fc7d47ba826c8d667c0d1e6e33a64a036ec44f58fa12d6c45 /\
  be_word (hash_slow (to_analysed (LegacyRaw [0x61; 0x62; 0x63]))) =
    0x4e03657aea45a94fc7d47ba826c8d667c0d1e6e33a64a036ec44f58fa12d6c45 /\
  be_word (hash_slow bytecode_default) =
    0xc5d2460186f7233c927e7db2dcc703c0e500b653ca82273b7bfad8045d85a470.
Proof. vm_compute. repeat split. Qed.

Example C27_designator_example :
  let a := repeat 0x01 20 in
  length a = 20%nat /\
  new_raw_checked (fun _ => false) ([0xef; 0x01; 0x00] ++ a) = inl (new_eip7702 a) /\
  new_raw_checked (fun _ => false) ([0xef; 0x01; 0x01] ++ a) = inr (ErrEip7702 UnsupportedVersion) /\
  new_raw_checked (fun _ => false) [0xef; 0x01; 0x00] = inr (ErrEip7702 InvalidLength) /\
  eip7702_new_raw ([0xef; 0x02; 0x00] ++ a) = inr InvalidMagic /\
  new_raw_checked (fun _ => false) ([0xef; 0x02; 0x00] ++ a) = inl (LegacyRaw ([0xef; 0x02; 0x00] ++ a)).
Proof. vm_compute. repeat split. Qed.
