(* C34 — cold and warm access is charged exactly per the access rules.
   Statements only. acc_warm / slot_warm are the warm status in the observation of
   Proofs/HostView.v (an address that was never loaded is warm exactly when it is pre-warmed at
   transaction level; a slot that was never loaded is cold). The gas charged for an access is a
   function of the is_cold answer (C14: warm_cold_cost, sload_cost, sstore_cost, call_cost). *)
From RevmV Require Import Base.Word Model.Host Spec.AccessSpec Proofs.HostView Proofs.HostOps
  Proofs.HostMain Proofs.AccessProofs Proofs.AccessRefine Proofs.AccessRefine3.
Local Open Scope Z_scope.

(* An address is reported cold exactly on its first access: the answer is the negation of the
   warm status, the address is warm afterwards, nothing else changes status. *)
Theorem C34_address_cold_exactly_when_not_warm :
  forall d s a,
    snd (load_account d s a) = negb (acc_warm d s a) /\
    acc_warm d (fst (load_account d s a)) a = true /\
    (forall x, x <> a -> acc_warm d (fst (load_account d s a)) x = acc_warm d s x) /\
    (forall x k, slot_warm d (fst (load_account d s a)) x k = slot_warm d s x k).
Proof. exact load_cold_iff. Qed.

Theorem C34_slot_cold_exactly_when_not_warm :
  forall d s a k s' v c, sload d s a k = Some (s', v, c) ->
    c = negb (slot_warm d s a k) /\ slot_warm d s' a k = true /\
    (forall x, acc_warm d s' x = acc_warm d s x) /\
    (forall x j, (x, j) <> (a, k) -> slot_warm d s' x j = slot_warm d s x j).
Proof. exact sload_cold_iff. Qed.

(* Transaction-level pre-warming: precompiles, coinbase (Shanghai), ... are warm before any load;
   access-list addresses and slots are warm after initial_account_load. *)
Theorem C34_prewarmed_addresses_are_warm :
  forall d s a, st s a = None -> acc_warm d s a = warm_pre s a.
Proof. exact preloaded_is_warm. Qed.

Theorem C34_access_list_is_warm :
  forall d s a ks, st s a = None ->
    acc_warm d (initial_account_load d s a ks) a = true /\
    forall k, In k ks -> slot_warm d (initial_account_load d s a ks) a k = true.
Proof. exact initial_load_warms. Qed.

(* An access made inside a frame that later reverts is forgotten, and nothing that was warm
   when the frame started (in particular transaction-level pre-warming) is forgotten: for every
   history run between checkpoint and revert, every address and slot has exactly the warm
   status it had at the checkpoint. Corollary of C06_revert_restores. *)
Theorem C34_revert_forgets_frame_accesses_only :
  forall d s h s1 cp s2 cps,
    WF d s -> checkpoint s = (s1, cp) -> contract d (s1, []) h ->
    run_hops d (s1, []) h = Some (s2, cps) ->
    exists s3, checkpoint_revert s2 cp = Some s3 /\
      (forall a, acc_warm d s3 a = acc_warm d s a) /\
      (forall a k, slot_warm d s3 a k = slot_warm d s a k).
Proof.
  intros d s h s1 cp s2 cps W CP C R.
  destruct (revert_restores d s h s1 cp s2 cps W CP C R) as (s3 & A & V & _).
  exists s3. split; [exact A|]. unfold acc_warm, slot_warm.
  assert (forall a, view_acc d s3 a = view_acc d s a) as Hv.
  { intros a. change (cv_acc (cview_of d s3) a = cv_acc (cview_of d s) a). rewrite V. reflexivity. }
  split; intros; rewrite Hv; reflexivity.
Qed.

(* Committing a frame keeps its accesses. *)
Theorem C34_commit_keeps_accesses :
  forall d s a k, acc_warm d (checkpoint_commit s) a = acc_warm d s a /\
                  slot_warm d (checkpoint_commit s) a k = slot_warm d s a k.
Proof. intros. split; reflexivity. Qed.

(* THE REFINEMENT. For every database, every well-formed state s whose warm status is described
   by accessed sets w (R d s w), and EVERY history h of journaled-state operations with nested
   checkpoint / commit / revert and creates, within the contract of C06: the sequence of is_cold
   answers of the model (model_trace: load_account, load_account_delegated incl. the delegation
   target, sload, sstore, selfdestruct) is exactly the sequence the accessed-set specification
   Spec/AccessSpec.v computes (sets copied into a frame, dropped when the frame reverts, kept
   when it commits). The specification is told only which accounts delegate and which creates
   succeeded (model_anns) — facts about code and balances, not about access status. *)
Theorem C34_answers_refine_accessed_sets :
  forall d h s w sc',
    WF d s -> R d s w -> contract d (s, []) h -> run_hops d (s, []) h = Some sc' ->
    snd (spec_run (w, []) h (model_anns d (s, []) h)) = model_trace d (s, []) h.
Proof.
  intros d h s w sc' W Rw C Run.
  apply (access_refinement d h s [] w [] sc'); auto. split; [exact W|]. split; [exact Rw|exact I].
Qed.

(* the warm status at the start of a transaction is the specification's initial accessed set:
   pre-warmed addresses for a fresh journaled state, plus each access-list entry *)
Theorem C34_fresh_state_matches_prewarmed_set :
  forall d sp ca wp, R d (jnew sp ca wp) (mkAS wp (fun _ _ => false)).
Proof. exact R_jnew. Qed.

Theorem C34_access_list_entry_extends_sets :
  forall d s a ks w, R d s w -> st s a = None ->
    R d (initial_account_load d s a ks)
        (mkAS (upd (as_acc w) a true) (fun x k => as_slot w x k || ((x =? a) && mem_z ks k))).
Proof. exact R_initial_load. Qed.

Example C34_example_first_access_cold_second_warm :
  let d := mkDb (fun _ => None) (fun _ _ => 0) (fun _ => None) in
  let s := jnew true true (fun a => a =? 9) in
  snd (load_account d s 5) = true /\ snd (load_account d (fst (load_account d s 5)) 5) = false /\
  snd (load_account d s 9) = false.
Proof. vm_compute. auto. Qed.
