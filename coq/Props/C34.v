(* C34 — cold and warm access is charged exactly per the access rules.
   Statements only. acc_warm / slot_warm are the warm status in the observation of
   Proofs/HostView.v (an address that was never loaded is warm exactly when it is pre-warmed at
   transaction level; a slot that was never loaded is cold). The gas charged for an access is a
   function of the is_cold answer (C14: warm_cold_cost, sload_cost, sstore_cost, call_cost). *)
From RevmV Require Import Base.Word Model.Host Spec.AccessSpec Proofs.HostView Proofs.HostOps
  Proofs.HostMain Proofs.AccessProofs Proofs.AccessRefine Proofs.AccessRefine3
  Spec.GateSpec Spec.TxWarmSpec Spec.AccessTrace Proofs.AccessTraceProofs.
Local Open Scope Z_scope.

(* An address is reported cold exactly on its first access: the answer is the negation of the
   warm status, the address is warm afterwards, nothing else changes status. *)
Theorem C34_address_cold_exactly_when_not_warm :
  forall d s a,
    snd (load_account d s a) = negb (acc_warm d s a) /\
    acc_warm d (fst (load_account d s a)) a = true /\
    (forall x, x <> a -> acc_warm d (fst (load_account d s a)) x = acc_warm d s x) /\
    (forall x k, slot_warm d (fst (load_account d s a)) x k = slot_warm d s x k).
Proof. exact load_cold_iff. Qed.

Theorem C34_slot_cold_exactly_when_not_warm :
  forall d s a k s' v c, sload d s a k = Some (s', v, c) ->
    c = negb (slot_warm d s a k) /\ slot_warm d s' a k = true /\
    (forall x, acc_warm d s' x = acc_warm d s x) /\
    (forall x j, (x, j) <> (a, k) -> slot_warm d s' x j = slot_warm d s x j).
Proof. exact sload_cold_iff. Qed.

(* Transaction-level pre-warming: precompiles, coinbase (Shanghai), ... are warm before any load;
   access-list addresses and slots are warm after initial_account_load. *)
Theorem C34_prewarmed_addresses_are_warm :
  forall d s a, st s a = None -> acc_warm d s a = warm_pre s a.
Proof. exact preloaded_is_warm. Qed.

Theorem C34_access_list_is_warm :
  forall d s a ks, st s a = None ->
    acc_warm d (initial_account_load d s a ks) a = true /\
    forall k, In k ks -> slot_warm d (initial_account_load d s a ks) a k = true.
Proof. exact initial_load_warms. Qed.

(* An access made inside a frame that later reverts is forgotten, and nothing that was warm
   when the frame started (in particular transaction-level pre-warming) is forgotten: for every
   history run between checkpoint and revert, every address and slot has exactly the warm
   status it had at the checkpoint. Corollary of C06_revert_restores. *)
Theorem C34_revert_forgets_frame_accesses_only :
  forall d s h s1 cp s2 cps,
    WF d s -> checkpoint s = (s1, cp) -> contract d (s1, []) h ->
    run_hops d (s1, []) h = Some (s2, cps) ->
    exists s3, checkpoint_revert s2 cp = Some s3 /\
      (forall a, acc_warm d s3 a = acc_warm d s a) /\
      (forall a k, slot_warm d s3 a k = slot_warm d s a k).
Proof.
  intros d s h s1 cp s2 cps W CP C R.
  destruct (revert_restores d s h s1 cp s2 cps W CP C R) as (s3 & A & V & _).
  exists s3. split; [exact A|]. unfold acc_warm, slot_warm.
  assert (forall a, view_acc d s3 a = view_acc d s a) as Hv.
  { intros a. change (cv_acc (cview_of d s3) a = cv_acc (cview_of d s) a). rewrite V. reflexivity. }
  split; intros; rewrite Hv; reflexivity.
Qed.

(* Committing a frame keeps its accesses. *)
Theorem C34_commit_keeps_accesses :
  forall d s a k, acc_warm d (checkpoint_commit s) a = acc_warm d s a /\
                  slot_warm d (checkpoint_commit s) a k = slot_warm d s a k.
Proof. intros. split; reflexivity. Qed.

(* THE REFINEMENT. For every database, every well-formed state s whose warm status is described
   by accessed sets w (R d s w), and EVERY history h of journaled-state operations with nested
   checkpoint / commit / revert and creates, within the contract of C06: the sequence of is_cold
   answers of the model (model_trace: load_account, load_account_delegated incl. the delegation
   target, sload, sstore, selfdestruct) is exactly the sequence the accessed-set specification
   Spec/AccessSpec.v computes (sets copied into a frame, dropped when the frame reverts, kept
   when it commits). The specification is told only which accounts delegate and which creates
   succeeded (model_anns) — facts about code and balances, not about access status. *)
Theorem C34_answers_refine_accessed_sets :
  forall d h s w sc',
    WF d s -> R d s w -> contract d (s, []) h -> run_hops d (s, []) h = Some sc' ->
    snd (spec_run (w, []) h (model_anns d (s, []) h)) = model_trace d (s, []) h.
Proof.
  intros d h s w sc' W Rw C Run.
  apply (access_refinement d h s [] w [] sc'); auto. split; [exact W|]. split; [exact Rw|exact I].
Qed.

(* the warm status at the start of a transaction is the specification's initial accessed set:
   pre-warmed addresses for a fresh journaled state, plus each access-list entry *)
Theorem C34_fresh_state_matches_prewarmed_set :
  forall d sp ca wp, R d (jnew sp ca wp) (mkAS wp (fun _ _ => false)).
Proof. exact R_jnew. Qed.

Theorem C34_access_list_entry_extends_sets :
  forall d s a ks w, R d s w -> st s a = None ->
    R d (initial_account_load d s a ks)
        (mkAS (upd (as_acc w) a true) (fun x k => as_slot w x k || ((x =? a) && mem_z ks k))).
Proof. exact R_initial_load. Qed.

(* WHOLE TRANSACTIONS. The oracle that judges the charges of real transactions (Corr/C34t.v:
   trace_run over the inspector's trace, started from tx_initial_sets) is the same specification:
   for every trace, every delegation map and every sets / snapshots, replaying the trace gives the
   final sets and the is_cold answers that spec_run gives on the translated operation history. *)
Theorem C34_trace_oracle_is_the_accessed_set_spec :
  forall dl tr ws,
    fst (trace_run dl ws tr) = fst (spec_run ws (trace_hops tr) (trace_anns dl tr)) /\
    concat (snd (trace_run dl ws tr)) = concat (snd (spec_run ws (trace_hops tr) (trace_anns dl tr))).
Proof. exact trace_run_is_spec_run. Qed.

(* Hence the model answers, event by event, what the whole-transaction oracle expects: for every
   trace whose translated history is within the contract of C06 and whose delegation facts are
   the model's (model_anns), started in a model state related to the sets w. *)
Theorem C34_model_answers_what_the_trace_oracle_expects :
  forall d dl tr s w sc',
    WF d s -> R d s w -> contract d (s, []) (trace_hops tr) ->
    run_hops d (s, []) (trace_hops tr) = Some sc' ->
    model_anns d (s, []) (trace_hops tr) = trace_anns dl tr ->
    concat (model_trace d (s, []) (trace_hops tr)) = concat (snd (trace_run dl (w, []) tr)).
Proof.
  intros d dl tr s w sc' W Rw C Run A.
  rewrite <- (C34_answers_refine_accessed_sets d (trace_hops tr) s w sc' W Rw C Run), A.
  symmetry. apply trace_run_is_spec_run.
Qed.

(* the initial sets of a transaction are an instance of the specification's initial sets: the
   EIP rule list of Spec/TxWarmSpec.v as the pre-warmed predicate, plus the access list *)
Theorem C34_tx_initial_sets_are_initial_sets :
  forall tx, tx_initial_sets tx = initial_sets (tx_prewarmed tx) (tw_al tx).
Proof. reflexivity. Qed.

(* the rule list, clause by clause (each address class is in the set exactly from its fork on) *)
Theorem C34_tx_rules :
  forall tx,
    tx_prewarmed tx (tw_sender tx) = true /\
    tx_prewarmed tx (tw_dest tx) = true /\
    (forall a, is_precompile (tw_spec tx) a = true -> tx_prewarmed tx a = true) /\
    (enabled (tw_spec tx) SHANGHAI = true -> tx_prewarmed tx (tw_coinbase tx) = true) /\
    (forall a, prague tx = true -> In a (fst (tx_after_auths tx)) -> tx_prewarmed tx a = true) /\
    (forall t, prague tx = true -> tw_is_create tx = false -> deleg_of tx (tw_dest tx) = Some t ->
               tx_prewarmed tx t = true) /\
    (forall a k, as_slot (tx_initial_sets tx) a k = al_slot (tw_al tx) a k) /\
    (* nothing else: an address outside all clauses is cold at the start *)
    (forall a, a <> tw_sender tx -> a <> tw_dest tx -> is_precompile (tw_spec tx) a = false ->
               (enabled (tw_spec tx) SHANGHAI = true -> a <> tw_coinbase tx) ->
               (prague tx = true -> a <> HISTORY_STORAGE_ADDRESS /\ ~ In a (fst (tx_after_auths tx)) /\
                                    deleg_of tx (tw_dest tx) <> Some a) ->
               al_acc (tw_al tx) a = false -> as_acc (tx_initial_sets tx) a = false).
Proof. exact tx_rules. Qed.

(* a Shanghai transaction: coinbase warm, an unrelated address cold, an access-list slot warm;
   the same coinbase is cold under London *)
Example C34_example_tx_sets :
  let tx s := mkTxW s 1 100 false 200 300 [(400, [7])] [] [] in
  as_acc (tx_initial_sets (tx SHANGHAI)) 300 = true /\ as_acc (tx_initial_sets (tx LONDON)) 300 = false /\
  as_acc (tx_initial_sets (tx SHANGHAI)) 500 = false /\ as_slot (tx_initial_sets (tx SHANGHAI)) 400 7 = true /\
  as_acc (tx_initial_sets (tx CANCUN)) 0x0a = true /\ as_acc (tx_initial_sets (tx SHANGHAI)) 0x0a = false.
Proof. vm_compute. repeat split. Qed.

(* EIP-7702: a valid tuple warms its authority and (being tx.to) its delegation target; a tuple
   for another chain warms nothing; a tuple with a wrong nonce still warms the authority *)
Example C34_example_7702_sets :
  let tx := mkTxW PRAGUE 1 100 false 600 300 []
              [mkAuth 1 700 0 (Some 600); mkAuth 5 701 0 (Some 601); mkAuth 1 702 9 (Some 602)] [] in
  as_acc (tx_initial_sets tx) 600 = true /\ as_acc (tx_initial_sets tx) 700 = true /\
  as_acc (tx_initial_sets tx) 601 = false /\ as_acc (tx_initial_sets tx) 602 = true /\
  as_acc (tx_initial_sets tx) 702 = false /\ deleg_of tx 600 = Some 700 /\ deleg_of tx 602 = None.
Proof. vm_compute. repeat split. Qed.

(* an access inside a frame that reverts is forgotten, a pre-warmed address is not: the charges
   the oracle accepts are 2600, (revert), 2600 again, and 100 for the coinbase throughout *)
Example C34_example_trace :
  let tx := mkTxW SHANGHAI 1 100 false 200 300 [] [] [] in
  let tr := [TOpen; TCall 0xf1 201 true 2600; TOpen; TAcct 0x31 500 50000 2600 0; TAcct 0x31 300 47400 100 0;
             TClose false; TAcct 0x31 500 90000 2600 0; TAcct 0x31 500 87400 100 0; TAcct 0x31 300 87300 100 0; TClose true] in
  events_ok tr (snd (trace_run (deleg_of tx) (tx_initial_sets tx, []) tr)) = true /\
  events_ok [TOpen; TAcct 0x31 500 50000 100 0; TClose true]
            (snd (trace_run (deleg_of tx) (tx_initial_sets tx, []) [TOpen; TAcct 0x31 500 50000 100 0; TClose true])) = false.
Proof. vm_compute. split; reflexivity. Qed.

Example C34_example_first_access_cold_second_warm :
  let d := mkDb (fun _ => None) (fun _ _ => 0) (fun _ => None) in
  let s := jnew true true (fun a => a =? 9) in
  snd (load_account d s 5) = true /\ snd (load_account d (fst (load_account d s 5)) 5) = false /\
  snd (load_account d s 9) = false.
Proof. vm_compute. auto. Qed.
