(* C34 — cold and warm access is charged exactly per the access rules.
   Statements only. acc_warm / slot_warm are the warm status in the observation of
   Proofs/HostView.v (an address that was never loaded is warm exactly when it is pre-warmed at
   transaction level; a slot that was never loaded is cold). The gas charged for an access is a
   function of the is_cold answer (C14: warm_cold_cost, sload_cost, sstore_cost, call_cost). *)
From RevmV Require Import Base.Word Model.Host Spec.AccessSpec Proofs.HostView Proofs.HostOps
  Proofs.HostMain Proofs.AccessProofs Proofs.AccessRefine Proofs.AccessRefine3
  Spec.GateSpec Spec.TxWarmSpec Spec.AccessTrace Proofs.AccessTraceProofs.
Local Open Scope Z_scope.

(* An address is reported cold exactly on its first access: the answer is the negation of the
   warm status, the address is warm afterwards, nothing else changes status. *)
Theorem C34_address_cold_exactly_when_not_warm :
  forall d s a,
    snd (load_account d s a) = negb (acc_warm d s a) /\
    acc_warm d (fst (load_account d s a)) a = true /\
    (forall x, x <> a -> acc_warm d (fst (load_account d s a)) x = acc_warm d s x) /\
    (forall x k, slot_warm d (fst (load_account d s a)) x k = slot_warm d s x k).
Proof. exact load_cold_iff. Qed.

Theorem C34_slot_cold_exactly_when_not_warm :
  forall d s a k s' v c, sload d s a k = Some (s', v, c) ->
    c = negb (slot_warm d s a k) /\ slot_warm d s' a k = true /\
    (forall x, acc_warm d s' x = acc_warm d s x) /\
    (forall x j, (x, j) <> (a, k) -> slot_warm d s' x j = slot_warm d s x j).
Proof. exact sload_cold_iff. Qed.

(* Transaction-level pre-warming: precompiles, coinbase (Shanghai), ... are warm before any load;
   access-list addresses and slots are warm after initial_account_load. *)
Theorem C34_prewarmed_addresses_are_warm :
  forall d s a, st s a = None -> acc_warm d s a = warm_pre s a.
Proof. exact preloaded_is_warm. Qed.

Theorem C34_access_list_is_warm :
  forall d s a ks, st s a = None ->
    acc_warm d (initial_account_load d s a ks) a = true /\
    forall k, In k ks -> slot_warm d (initial_account_load d s a ks) a k = true.
Proof. exact initial_load_warms. Qed.

(* An access made inside a frame that later reverts is forgotten, and nothing that was warm
   when the frame started (in particular transaction-level pre-warming) is forgotten: for every
   history run between checkpoint and revert, every address and slot has exactly the warm
   status it had at the checkpoint. Corollary of C06_revert_restores. *)
Theorem C34_revert_forgets_frame_accesses_only :
  forall d s h s1 cp s2 cps,
    WF d s -> checkpoint s = (s1, cp) -> contract d (s1, []) h ->
    run_hops d (s1, []) h = Some (s2, cps) ->
    exists s3, checkpoint_revert s2 cp = Some s3 /\
      (forall a, acc_warm d s3 a = acc_warm d s a) /\
      (forall a k, slot_warm d s3 a k = slot_warm d s a k).
Proof.
  intros d s h s1 cp s2 cps W CP C R.
  destruct (revert_restores d s h s1 cp s2 cps W CP C R) as (s3 & A & V & _).
  exists s3. split; [exact A|]. unfold acc_warm, slot_warm.
  assert (forall a, view_acc d s3 a = view_acc d s a) as Hv.
  { intros a. change (cv_acc (cview_of d s3) a = cv_acc (cview_of d s) a). rewrite V. reflexivity. }
  split; intros; rewrite Hv; reflexivity.
Qed.

(* Committing a frame keeps its accesses. *)
Theorem C34_commit_keeps_accesses :
  forall d s a k, acc_warm d (checkpoint_commit s) a = acc_warm d s a /\
                  slot_warm d (checkpoint_commit s) a k = slot_warm d s a k.
Proof. intros. split; reflexivity. Qed.

(* THE REFINEMENT. For every database, every well-formed state s whose warm status is described
   by accessed sets w (R d s w), and EVERY history h of journaled-state operations with nested
   checkpoint / commit / revert and creates, within the contract of C06: the sequence of is_cold
   answers of the model (model_trace: load_account, load_account_delegated incl. the delegation
   target, sload, sstore, selfdestruct) is exactly the sequence the accessed-set specification
   Spec/AccessSpec.v computes (sets copied into a frame, dropped when the frame reverts, kept
   when it commits). The specification is told only which accounts delegate and which creates
   succeeded (model_anns) — facts about code and balances, not about access status. *)
Theorem C34_answers_refine_accessed_sets :
  forall d h s w sc',
    WF d s -> R d s w -> contract d (s, []) h -> run_hops d (s, []) h = Some sc' ->
    snd (spec_run (w, []) h (model_anns d (s, []) h)) = model_trace d (s, []) h.
Proof.
  intros d h s w sc' W Rw C Run.
  apply (access_refinement d h s [] w [] sc'); auto. split; [exact W|]. split; [exact Rw|exact I].
Qed.

(* the warm status at the start of a transaction is the specification's initial accessed set:
   pre-warmed addresses for a fresh journaled state, plus each access-list entry *)
Theorem C34_fresh_state_matches_prewarmed_set :
  forall d sp ca wp, R d (jnew sp ca wp) (mkAS wp (fun _ _ => false)).
Proof. exact R_jnew. Qed.

Theorem C34_access_list_entry_extends_sets :
  forall d s a ks w, R d s w -> st s a = None ->
    R d (initial_account_load d s a ks)
        (mkAS (upd (as_acc w) a true) (fun x k => as_slot w x k || ((x =? a) && mem_z ks k))).
Proof. exact R_initial_load. Qed.

(* WHOLE TRANSACTIONS. The oracle that judges the charges of real transactions (Corr/C34t.v:
   trace_run over the inspector's trace, started from tx_initial_sets) is the same specification:
   for every trace, every delegation map and every sets / snapshots, replaying the trace gives the
   final sets and the is_cold answers that spec_run gives on the translated operation history. *)
Theorem C34_trace_oracle_is_the_accessed_set_spec :
  forall dl tr ws,
    fst (trace_run dl ws tr) = fst (spec_run ws (trace_hops tr) (trace_anns dl tr)) /\
    concat (snd (trace_run dl ws tr)) = concat (snd (spec_run ws (trace_hops tr) (trace_anns dl tr))).
Proof. exact trace_run_is_spec_run. Qed.

(* Hence the model answers, event by event, what the whole-transaction oracle expects: for every
   trace whose translated history is within the contract of C06 and whose delegation facts are
   the model's (model_anns), started in a model state related to the sets w. *)
Theorem C34_model_answers_what_the_trace_oracle_expects :
  forall d dl tr s w sc',
    WF d s -> R d s w -> contract d (s, []) (trace_hops tr) ->
    run_hops d (s, []) (trace_hops tr) = Some sc' ->
    model_anns d (s, []) (trace_hops tr) = trace_anns dl tr ->
    concat (model_trace d (s, []) (trace_hops tr)) = concat (snd (trace_run dl (w, []) tr)).
Proof.
  intros d dl tr s w sc' W Rw C Run A.
  rewrite <- (C34_answers_refine_accessed_sets d (trace_hops tr) s w sc' W Rw C Run), A.
  symmetry. apply trace_run_is_spec_run.
Qed.

(* the initial sets of a transaction are an instance of the specification's initial sets: the
   EIP rule list of Spec/TxWarmSpec.v as the pre-warmed predicate, plus the access list *)
Theorem C34_tx_initial_sets_are_initial_sets :
  forall tx, tx_initial_sets tx = initial_sets (tx_prewarmed tx) (tw_al tx).
Proof. reflexivity. Qed.

(* the rule list, clause by clause (each address class is in the set exactly from its fork on) *)
Theorem C34_tx_rules :
  forall tx,
    tx_prewarmed tx (tw_sender tx) = true /\
    tx_prewarmed tx (tw_dest tx) = true /\
    (forall a, is_precompile (tw_spec tx) a = true -> tx_prewarmed tx a = true) /\
    (enabled (tw_spec tx) SHANGHAI = true -> tx_prewarmed tx (tw_coinbase tx) = true) /\
    (forall a, prague tx = true -> In a (fst (tx_after_auths tx)) -> tx_prewarmed tx a = true) /\
    (forall t, prague tx = true -> tw_is_create tx = false -> deleg_of tx (tw_dest tx) = Some t ->
               tx_prewarmed tx t = true) /\
    (forall a k, as_slot (tx_initial_sets tx) a k = al_slot (tw_al tx) a k) /\
    (* nothing else: an address outside all clauses is cold at the start *)
    (forall a, a <> tw_sender tx -> a <> tw_dest tx -> is_precompile (tw_spec tx) a = false ->
               (enabled (tw_spec tx) SHANGHAI = true -> a <> tw_coinbase tx) ->
               (prague tx = true -> ~ In a (fst (tx_after_auths tx)) /\
                                    deleg_of tx (tw_dest tx) <> Some a) ->
               al_acc (tw_al tx) a = false -> as_acc (tx_initial_sets tx) a = false).
Proof. exact tx_rules. Qed.

(* a Shanghai transaction: coinbase warm, an unrelated address cold, an access-list slot warm;
   the same coinbase is cold under London *)
Example C34_example_tx_sets :
  let tx s := mkTxW s 1 100 false 200 300 [(400, [7])] [] [] in
  as_acc (tx_initial_sets (tx SHANGHAI)) 300 = true /\ as_acc (tx_initial_sets (tx LONDON)) 300 = false /\
  as_acc (tx_initial_sets (tx SHANGHAI)) 500 = false /\ as_slot (tx_initial_sets (tx SHANGHAI)) 400 7 = true /\
  as_acc (tx_initial_sets (tx CANCUN)) 0x0a = true /\ as_acc (tx_initial_sets (tx SHANGHAI)) 0x0a = false.
Proof. vm_compute. repeat split. Qed.

(* EIP-7702: a valid tuple warms its authority and (being tx.to) its delegation target; a tuple
   for another chain warms nothing; a tuple with a wrong nonce still warms the authority *)
Example C34_example_7702_sets :
  let tx := mkTxW PRAGUE 1 100 false 600 300 []
              [mkAuth 1 700 0 (Some 600); mkAuth 5 701 0 (Some 601); mkAuth 1 702 9 (Some 602)] [] in
  as_acc (tx_initial_sets tx) 600 = true /\ as_acc (tx_initial_sets tx) 700 = true /\
  as_acc (tx_initial_sets tx) 601 = false /\ as_acc (tx_initial_sets tx) 602 = true /\
  as_acc (tx_initial_sets tx) 702 = false /\ deleg_of tx 600 = Some 700 /\ deleg_of tx 602 = None.
Proof. vm_compute. repeat split. Qed.

(* an access inside a frame that reverts is forgotten, a pre-warmed address is not: the charges
   the oracle accepts are 2600, (revert), 2600 again, and 100 for the coinbase throughout *)
Example C34_example_trace :
  let tx := mkTxW SHANGHAI 1 100 false 200 300 [] [] [] in
  let tr := [TOpen; TCall 0xf1 201 true 2600; TOpen; TAcct 0x31 500 50000 2600 0; TAcct 0x31 300 47400 100 0;
             TClose false; TAcct 0x31 500 90000 2600 0; TAcct 0x31 500 87400 100 0; TAcct 0x31 300 87300 100 0; TClose true] in
  events_ok tr (snd (trace_run (deleg_of tx) (tx_initial_sets tx, []) tr)) = true /\
  events_ok [TOpen; TAcct 0x31 500 50000 100 0; TClose true]
            (snd (trace_run (deleg_of tx) (tx_initial_sets tx, []) [TOpen; TAcct 0x31 500 50000 100 0; TClose true])) = false.
Proof. vm_compute. split; reflexivity. Qed.

Example C34_example_first_access_cold_second_warm :
  let d := mkDb (fun _ => None) (fun _ _ => 0) (fun _ => None) in
  let s := jnew true true (fun a => a =? 9) in
  snd (load_account d s 5) = true /\ snd (load_account d (fst (load_account d s 5)) 5) = false /\
  snd (load_account d s 9) = false.
Proof. vm_compute. auto. Qed.

(* ================================================================================================
   C34 on the reference interpreter (composition).  Model/Step.v (one instruction, with the same
   order of checks as the Rust instruction functions), Model/Evm.v (do_call, the interpreter
   loop, run_tx with load_access_list / deduct_caller / apply_eip7702_auth_list) over the journaled
   state of Model/Host.v.  This interpreter is tied to the Rust code by the C01 correspondence
   runs.  Proofs in Proofs/EvmAccessProofs.v.  Fork: from BERLIN (en (w_spec W) BERLIN = true).
   ================================================================================================ *)
From RevmV Require Import Model.Step Model.Evm Proofs.EvmHistoryProofs Proofs.EvmAccessProofs.
From RevmV Require Model.Frames Model.GasCalc Proofs.HostRevert Proofs.FramesProofs Proofs.EvmEtherProofs.

(* ---- 1. instructions.  The prices are the EIP-2929 constants: *)
Theorem C34_interpreter_cold_price_iff_not_warm :
  forall w, (acct_price w = 2600 <-> w = false) /\ (acct_price w = 100 <-> w = true) /\
            (slot_price w = 2100 <-> w = false) /\ (slot_price w = 100 <-> w = true).
Proof. intros [|]; cbn; repeat split; intros; try reflexivity; try discriminate. Qed.

(* gas!(c) takes exactly c or halts the frame OutOfGas with the gas untouched *)
Theorem C34_interpreter_gas_macro_charges_exactly :
  forall c I k, with_gas c I k = if c <=? rem I then k (charge I c) else halt R_OutOfGas I.
Proof. exact with_gas_charge. Qed.

(* from BERLIN on, at an access-causing opcode, [step] is the instruction function below *)
Theorem C34_interpreter_step_dispatch :
  forall W G F I, en (w_spec W) E.BERLIN = true ->
    let op := opcode_at F (i_pc I) in
    (op = 0x31 -> step W G F I = op_balance W G I) /\
    (op = 0x3b -> step W G F I = op_extcodesize W G I) /\
    (op = 0x3c -> step W G F I = op_extcodecopy W G I) /\
    (op = 0x3f -> step W G F I = op_extcodehash W G I) /\
    (op = 0x54 -> step W G F I = op_sload W G F I) /\
    (op = 0x55 -> step W G F I = op_sstore W G F I) /\
    (op = 0xff -> step W G F I = op_selfdestruct W G F I) /\
    (In op [0xf1; 0xf2; 0xf4; 0xfa] -> step W G F I = finish_pre W G F (op_call_pre F (scheme_of_op op) I)).
Proof. exact step_access_dispatch. Qed.

(* BALANCE: charged 2600 exactly when the address is not warm in the pre-state, 100 otherwise;
   afterwards the address is warm and no other address or slot changes status *)
Theorem C34_interpreter_balance :
  forall W G I a r, en (w_spec W) E.BERLIN = true -> i_stk I = a :: r ->
    let x := addr_of_word a in
    op_balance W G I =
      (set_s G (ld W G x),
       with_gas (acct_price (acc_warm (gdb W G) (gs G) x)) (set_stk I r)
         (push_next (match Host.st (ld W G x) x with Some acc => Host.a_bal acc | None => 0 end))) /\
    warms_addr (gdb W G) (gs G) (ld W G x) x.
Proof. exact op_balance_access. Qed.

Theorem C34_interpreter_extcodehash :
  forall W G I a r, en (w_spec W) E.BERLIN = true -> i_stk I = a :: r ->
    let x := addr_of_word a in
    op_extcodehash W G I =
      (set_s G (ld W G x),
       with_gas (acct_price (acc_warm (gdb W G) (gs G) x)) (set_stk I r)
         (push_next (match Host.st (ld W G x) x with
                     | Some acc => if Host.is_empty_acc acc then 0
                                   else if Host.a_code acc =? 0 then KECCAK_EMPTY else Host.a_code acc
                     | None => 0 end))) /\
    warms_addr (gdb W G) (gs G) (ld W G x) x.
Proof. exact op_extcodehash_access. Qed.

Theorem C34_interpreter_extcodesize :
  forall W G I a r, en (w_spec W) E.BERLIN = true -> i_stk I = a :: r ->
    let x := addr_of_word a in
    fst (op_extcodesize W G I) = set_s G (ld W G x) /\
    warms_addr (gdb W G) (gs G) (ld W G x) x /\
    forall b, code_bytes (g_codes G) (match Host.st (ld W G x) x with Some acc => Host.a_code acc | None => 0 end) = Some b ->
      snd (op_extcodesize W G I) =
        with_gas (acct_price (acc_warm (gdb W G) (gs G) x)) (set_stk I r) (push_next (zlen b)).
Proof. exact op_extcodesize_access. Qed.

(* EXTCODECOPY: the access price is the base of the copy cost (+ 3 per word, + memory) *)
Theorem C34_interpreter_extcodecopy :
  forall W G I a mo cof len r, en (w_spec W) E.BERLIN = true -> i_stk I = a :: mo :: cof :: len :: r ->
    let x := addr_of_word a in
    fst (op_extcodecopy W G I) = set_s G (ld W G x) /\
    warms_addr (gdb W G) (gs G) (ld W G x) x /\
    forall code, code_bytes (g_codes G) (match Host.st (ld W G x) x with Some acc => Host.a_code acc | None => 0 end) = Some code ->
      snd (op_extcodecopy W G I) =
        usize_or_fail len (set_stk I r) (fun len =>
          with_gas_opt (GasCalc.obind (GasCalc.cost_per_word len G.COPY)
                          (fun w => GasCalc.checked_add64 (acct_price (acc_warm (gdb W G) (gs G) x)) w)) (set_stk I r) (fun I1 =>
            if len =? 0 then next I1
            else usize_or_fail mo I1 (fun mo =>
                 let cof := Z.min (sat_u64 cof) (zlen code) in
                 mem_resize I1 mo len (fun I2 =>
                   mem_op (M.set_data (i_mem I2) mo cof len code) I2 next)))).
Proof. exact op_extcodecopy_access. Qed.

(* SLOAD: 2100 exactly when (executing address, key) is not warm, 100 otherwise *)
Theorem C34_interpreter_sload :
  forall W G F I k r s1 v cold, en (w_spec W) E.BERLIN = true -> i_stk I = k :: r ->
    Host.sload (gdb W G) (gs G) (f_target F) k = Some (s1, v, cold) ->
    op_sload W G F I =
      (set_s G s1,
       with_gas (slot_price (slot_warm (gdb W G) (gs G) (f_target F) k)) I (fun I1 => next (set_stk I1 (v :: r)))) /\
    warms_slot (gdb W G) (gs G) s1 (f_target F) k.
Proof. exact op_sload_access. Qed.

(* SSTORE: the EIP-2200 schedule (100 / 20000 / 2900) plus 2100 exactly when the slot is not warm *)
Theorem C34_interpreter_sstore :
  forall W G F I k v r s1 orig pres cold,
    en (w_spec W) E.BERLIN = true -> f_static F = false -> i_stk I = k :: v :: r ->
    Host.sstore (gdb W G) (gs G) (f_target F) k v = Some (s1, orig, pres, cold) ->
    let sr := GasCalc.mkSStore orig pres v in
    op_sstore W G F I =
      (set_s G s1,
       with_gas_opt (sstore_price (rem (set_stk I r)) sr (slot_warm (gdb W G) (gs G) (f_target F) k)) (set_stk I r) (fun I1 =>
         match Gas.record_refund (i_gas I1) (GasCalc.sstore_refund (spec_of_z (w_spec W)) sr) with
         | Some g' => next (set_gas I1 g')
         | None => SBad BAD_PANIC
         end)) /\
    warms_slot (gdb W G) (gs G) s1 (f_target F) k.
Proof. exact op_sstore_access. Qed.

(* SELFDESTRUCT: 5000 (+ 25000 new account) plus 2600 exactly when the beneficiary is not warm *)
Theorem C34_interpreter_selfdestruct :
  forall W G F I t r s1 hv te prev cold g1,
    en (w_spec W) E.BERLIN = true -> f_static F = false -> i_stk I = t :: r ->
    Host.selfdestruct (gdb W G) (gs G) (f_target F) (addr_of_word t) = Some (s1, hv, te, prev, cold) ->
    (if negb (en (w_spec W) E.LONDON) && negb prev
     then Gas.record_refund (i_gas (set_stk I r)) G.SELFDESTRUCT else Some (i_gas (set_stk I r))) = Some g1 ->
    op_selfdestruct W G F I =
      (set_s G s1,
       with_gas (selfdestruct_price hv te (acc_warm (gdb W G) (gs G) (addr_of_word t))) (set_gas (set_stk I r) g1)
         (fun I1 => SEnd R_SelfDestruct [] I1)) /\
    warms_addr (gdb W G) (gs G) s1 (addr_of_word t).
Proof. exact op_selfdestruct_access. Qed.

(* CALL / CALLCODE / DELEGATECALL / STATICCALL: the callee is the address in the second stack
   word; the charge is 2600 / 100 by the callee's status, plus 2600 / 100 by the status of its
   EIP-7702 delegation target (after the callee was loaded), plus 9000 for value and 25000 for
   a new account; both are warm afterwards *)
Theorem C34_interpreter_call_target :
  forall F sch I c I', op_call_pre F sch I = PCall c I' ->
    exists lg to r, i_stk I = lg :: to :: r /\ cp_to c = addr_of_word to /\ cp_scheme c = sch.
Proof. exact op_call_pre_target. Qed.

Theorem C34_interpreter_call :
  forall W G F c I, en (w_spec W) E.BERLIN = true ->
    let d := gdb W G in let to := cp_to c in
    let s1 := ld W G to in
    let s2 := match deleg_target d (gs G) to with Some t => fst (Host.load_account d s1 t) | None => s1 end in
    let dwarm := option_map (acc_warm d s1) (deleg_target d (gs G) to) in
    exists empty,
      op_call_post W G F c I =
        (set_s G s2,
         with_gas (call_price (acc_warm d (gs G) to) dwarm (negb (cp_value c =? 0)) empty) I (call_request W F c)) /\
      warms_addr d (gs G) s1 to /\
      (forall t, deleg_target d (gs G) to = Some t -> warms_addr d s1 s2 t).
Proof. exact op_call_post_access. Qed.

(* ---- 2. frames.  exec_nc_h is the create-free interpreter exec_nc (EvmHistoryProofs; whatever
   exec_nc computes, exec computes: exec_nc_sound) returning in addition the history of
   journaled-state operations it performed: per instruction step_hops, per call the operations
   of make_call_frame, the child's history and the commit / revert of call_return. *)
Theorem C34_interpreter_step_history :
  forall W G F I, ghist W G (fst (step W G F I)) (step_hops W G F I).
Proof. exact step_hist. Qed.

Theorem C34_interpreter_history_erases :
  forall W f G F I, xerase (exec_nc_h f W G F I) = exec_nc f W G F I.
Proof. exact exec_nc_h_erase. Qed.

Theorem C34_interpreter_frame_history_replays :
  forall W f G F I G' r h, exec_nc_h f W G F I = XDone (G', r, h) ->
    g_codes G' = g_codes G /\ Forall okhop h /\ wbh 0 h = Some 0%nat /\
    Host.run_hops (gdb W G) (g_sc G) h = Some (g_sc G').
Proof. exact (fun W f => exec_nc_hist W f). Qed.

(* The is_cold answers obtained along the frame's history (by part 1: what its instructions were
   charged by) are exactly the answers of the accessed-set specification of Spec/AccessSpec.v
   (sets copied into a frame, dropped when it reverts, kept when it commits), started from sets
   w describing the warm status at the frame's start; the specification's final sets describe
   the warm status at the frame's end. *)
Theorem C34_interpreter_frame_answers_refine_accessed_sets :
  forall W f G F I G' r h w,
    exec_nc_h f W G F I = XDone (G', r, h) ->
    WF (gdb W G) (gs G) -> R (gdb W G) (gs G) w ->
    let d := gdb W G in
    let sp := spec_run (w, []) h (model_anns d (gs G, []) h) in
    Host.run_hops d (gs G, []) h = Some (gs G', []) /\
    snd sp = model_trace d (gs G, []) h /\
    R d (gs G') (fst (fst sp)) /\ snd (fst sp) = [] /\ WF d (gs G').
Proof. exact frame_answers_refine. Qed.

Theorem C34_interpreter_call_answers_refine_accessed_sets :
  forall W f G c G' r h w,
    do_call_h W (exec_nc_h f W) G c = XDone (G', r, h) -> (cq_transfers c = true -> 0 <= cq_value c) ->
    WF (gdb W G) (gs G) -> R (gdb W G) (gs G) w ->
    let d := gdb W G in
    let sp := spec_run (w, []) h (model_anns d (gs G, []) h) in
    Host.run_hops d (gs G, []) h = Some (gs G', []) /\
    snd sp = model_trace d (gs G, []) h /\
    R d (gs G') (fst (fst sp)) /\ WF d (gs G').
Proof. exact call_answers_refine. Qed.

(* an access made inside a frame that does not end ok is forgotten: after the call every slot
   has the warm status it had before the call, every address other than the callee and its
   delegation target too; the callee (loaded before the checkpoint) stays warm *)
Theorem C34_interpreter_failed_child_forgets_accesses :
  forall W f G c G' r s0 sc1 cp,
    let d := gdb W G in
    HostRevert.Inv d s0 (gs G) (snd (g_sc G)) ->
    (cq_transfers c = true -> 0 <= cq_value c) ->
    Frames.make_call_frame d (g_sc G) (call_inputs_of W c) = Some (sc1, Frames.FFrame cp) ->
    do_call W (exec_nc f W) G c = XDone (G', r) -> is_ok (ir_res r) = false ->
    let s_ld := fst (fst (fst (Host.load_account_delegated d (gs G) (cq_bytecode c)))) in
    (forall a, acc_warm d (gs G') a = acc_warm d s_ld a) /\
    (forall a k, slot_warm d (gs G') a k = slot_warm d s_ld a k) /\
    (forall a k, slot_warm d (gs G') a k = slot_warm d (gs G) a k) /\
    (forall a, a <> cq_bytecode c -> deleg_target d (gs G) (cq_bytecode c) <> Some a ->
               acc_warm d (gs G') a = acc_warm d (gs G) a) /\
    acc_warm d (gs G') (cq_bytecode c) = true.
Proof. exact failed_child_forgets_accesses. Qed.

(* what is warm below all open checkpoints is never forgotten: for EVERY history inside the C06
   contract (any nesting of checkpoints, commits, reverts, creates) *)
Theorem C34_warm_below_checkpoints_never_forgotten :
  forall d h s s' cps',
    WF d s -> contract d (s, []) h -> Host.run_hops d (s, []) h = Some (s', cps') ->
    (forall a, acc_warm d s a = true -> acc_warm d s' a = true) /\
    (forall a k, slot_warm d s a k = true -> slot_warm d s' a k = true).
Proof. exact warm_never_forgotten. Qed.

Theorem C34_interpreter_call_keeps_warm :
  forall W f G c G' r,
    do_call W (exec_nc f W) G c = XDone (G', r) -> (cq_transfers c = true -> 0 <= cq_value c) ->
    WF (gdb W G) (gs G) ->
    (forall a, acc_warm (gdb W G) (gs G) a = true -> acc_warm (gdb W G) (gs G') a = true) /\
    (forall a k, slot_warm (gdb W G) (gs G) a k = true -> slot_warm (gdb W G) (gs G') a k = true).
Proof. exact call_keeps_warm. Qed.

(* the history entry of an access-causing instruction and the answer recorded for it: the
   answer is the negated warm status of the very pre-state the price of part 1 is computed from *)
Theorem C34_interpreter_access_instruction_history :
  forall W G F I, en (w_spec W) E.BERLIN = true -> In (opcode_at F (i_pc I)) access_ops ->
    step_hops W G F I = op_hops W G F I (opcode_at F (i_pc I)).
Proof. exact step_hops_access. Qed.

Theorem C34_interpreter_history_answers_are_warm_status :
  forall d s o,
    match o with
    | Host.HLoad a => model_cold d s o = [negb (acc_warm d s a)]
    | Host.HLoadDelegated a =>
        model_cold d s o =
          negb (acc_warm d s a) ::
          match deleg_target d s a with Some t => [negb (acc_warm d (fst (Host.load_account d s a)) t)] | None => [] end
    | Host.HSload a k => forall r, Host.sload d s a k = Some r -> model_cold d s o = [negb (slot_warm d s a k)]
    | Host.HSstore a k v => forall r, Host.sstore d s a k v = Some r -> model_cold d s o = [negb (slot_warm d s a k)]
    | Host.HSelfdestruct a t => forall r, Host.selfdestruct d s a t = Some r -> model_cold d s o = [negb (acc_warm d s t)]
    | _ => model_cold d s o = []
    end.
Proof. exact model_cold_is_warm_status. Qed.

(* one instruction end to end (SLOAD, BALANCE): charge, recorded operation, recorded answer, effect *)
Theorem C34_interpreter_sload_step :
  forall W G F I k r s1 v cold,
    en (w_spec W) E.BERLIN = true -> opcode_at F (i_pc I) = 0x54 -> i_stk I = k :: r ->
    Host.sload (gdb W G) (gs G) (f_target F) k = Some (s1, v, cold) ->
    let w := slot_warm (gdb W G) (gs G) (f_target F) k in
    step W G F I = (set_s G s1, with_gas (slot_price w) I (fun I1 => next (set_stk I1 (v :: r)))) /\
    step_hops W G F I = [Host.HSload (f_target F) k] /\
    model_cold (gdb W G) (gs G) (Host.HSload (f_target F) k) = [negb w] /\
    warms_slot (gdb W G) (gs G) s1 (f_target F) k.
Proof. exact step_sload_summary. Qed.

Theorem C34_interpreter_balance_step :
  forall W G F I a r,
    en (w_spec W) E.BERLIN = true -> opcode_at F (i_pc I) = 0x31 -> i_stk I = a :: r ->
    let x := addr_of_word a in let w := acc_warm (gdb W G) (gs G) x in
    step W G F I =
      (set_s G (ld W G x),
       with_gas (acct_price w) (set_stk I r)
         (push_next (match Host.st (ld W G x) x with Some acc => Host.a_bal acc | None => 0 end))) /\
    step_hops W G F I = [Host.HLoad x] /\
    model_cold (gdb W G) (gs G) (Host.HLoad x) = [negb w] /\
    warms_addr (gdb W G) (gs G) (ld W G x) x.
Proof. exact step_balance_summary. Qed.

(* ---- 3. the transaction.  tx_pre_state is the pre-execution part of run_tx
   (load_access_list, deduct_caller, apply_eip7702_auth_list); run_tx creates its first frame
   in that state. *)
Theorem C34_interpreter_run_tx_first_frame :
  forall fuel W to res, run_tx fuel W = XDone res -> w_to W = Some to ->
    exists G2 G3 r, tx_pre_state W = Some G2 /\
      do_call W (exec fuel W) G2 (EvmEtherProofs.tx_call W to) = XDone (G3, r) /\ tr_reason res = ir_res r.
Proof. exact run_tx_first_frame. Qed.

(* after load_access_list (any list, repeated entries included) the warm status is the
   specification's initial_sets for the model's pre-warmed predicate and the access list *)
Theorem C34_interpreter_access_list_sets :
  forall W, let G0 := load_access_list W (gstate_new W) in
    R (gdb W G0) (gs G0) (initial_sets (warm_preloaded W) (w_access_list W)) /\
    all_warm (gs G0) /\ g_codes G0 = w_codes W /\ snd (g_sc G0) = [].
Proof. exact access_list_sets. Qed.

(* when the first frame is created: precompiles of the fork, coinbase from SHANGHAI, the
   model's history address from PRAGUE (warm_preloaded), the access list, the sender, and from
   PRAGUE the authorities of the tuples that pass the chain-id / nonce-range / signature checks;
   the warm slots are exactly the access-list slots *)
Theorem C34_interpreter_warm_set_at_first_frame :
  forall W G2, tx_pre_state W = Some G2 ->
    (forall a, acc_warm (gdb W G2) (gs G2) a =
               (warm_preloaded W a || al_acc (w_access_list W) a || (a =? w_caller W)
                || (en (w_spec W) E.PRAGUE && mem_z (auth_warmed (chain_of W) (w_auth_list W)) a))) /\
    (forall a k, slot_warm (gdb W G2) (gs G2) a k = al_slot (w_access_list W) a k).
Proof. exact tx_pre_state_warm. Qed.

(* against Spec/TxWarmSpec.v, below PRAGUE: equality, the recipient / created address being
   loaded by the first frame before its checkpoint (C34_interpreter_recipient_is_warm) *)
Theorem C34_interpreter_initial_sets_below_prague :
  forall W G2 dest accts, tx_pre_state W = Some G2 -> en (w_spec W) E.PRAGUE = false ->
    (forall a, as_acc (tx_initial_sets (txw_of W dest accts)) a = acc_warm (gdb W G2) (gs G2) a || (a =? dest)) /\
    (forall a k, as_slot (tx_initial_sets (txw_of W dest accts)) a k = slot_warm (gdb W G2) (gs G2) a k).
Proof. exact tx_pre_state_is_spec_below_prague. Qed.

(* from PRAGUE: the authorities agree with EIP-7702 steps 1-4 of the specification; PARTIAL:
   (i) the delegation target of tx.to is stated on the model's delegation (deleg_target, from the
   code table), not related to the specification's account abstraction (tw_accts); (ii) the two
   EIP-2935 addresses are excluded: the model's constant differs from the tree's, see below *)
Theorem C34_interpreter_initial_sets_from_prague_partial :
  forall W G2 dest accts, tx_pre_state W = Some G2 -> en (w_spec W) E.PRAGUE = true ->
    Forall (fun t => snd t <= pow64 - 1) (w_auth_list W) ->
    (forall a,
       as_acc (tx_initial_sets (txw_of W dest accts)) a =
       acc_warm (gdb W G2) (gs G2) a || (a =? dest)
       || (match w_to W with Some _ => true | None => false end && opt_is (deleg_of (txw_of W dest accts) dest) a)) /\
    (forall a k, as_slot (tx_initial_sets (txw_of W dest accts)) a k = slot_warm (gdb W G2) (gs G2) a k).
Proof. exact tx_pre_state_is_spec_from_prague. Qed.

(* the EIP-2935 history contract (the final EIP's address and the early draft's address the
   tree's constant holds) is not pre-warmed: it is warm at transaction start only if it is the
   coinbase (from SHANGHAI). The tree used to pre-warm the draft address from PRAGUE, which the
   check reported with a PRAGUE transaction probing it (fix recorded in known_findings.json). *)
Theorem C34_interpreter_history_contract_not_prewarmed :
  forall W, is_precompile W BLOCKHASH_STORAGE_ADDRESS = false -> is_precompile W HISTORY_STORAGE_ADDRESS = false ->
    warm_preloaded W BLOCKHASH_STORAGE_ADDRESS = (en (w_spec W) E.SHANGHAI && (BLOCKHASH_STORAGE_ADDRESS =? w_coinbase W)) /\
    warm_preloaded W HISTORY_STORAGE_ADDRESS = (en (w_spec W) E.SHANGHAI && (HISTORY_STORAGE_ADDRESS =? w_coinbase W)).
Proof. exact history_address_not_prewarmed. Qed.

(* the recipient of a call transaction and the delegation target its code designates are warm
   after the first frame, whatever it does *)
Theorem C34_interpreter_recipient_is_warm :
  forall W f to G2 G3 r,
    tx_pre_state W = Some G2 -> WF (gdb W (gstate_new W)) (gs (gstate_new W)) -> 0 <= w_value W ->
    do_call W (exec_nc f W) G2 (EvmEtherProofs.tx_call W to) = XDone (G3, r) ->
    acc_warm (gdb W G2) (gs G3) to = true /\
    (forall t, deleg_target (gdb W G2) (gs G2) to = Some t -> acc_warm (gdb W G2) (gs G3) t = true).
Proof. exact tx_recipient_warm. Qed.

(* transaction-level pre-warming is never forgotten: whatever the first frame does (it may
   revert or halt as a whole, with any nesting of reverting frames inside), every address of the
   warm set above and every access-list slot is warm afterwards *)
Theorem C34_interpreter_tx_level_warming_never_forgotten :
  forall W f to G2 G3 r,
    tx_pre_state W = Some G2 -> WF (gdb W (gstate_new W)) (gs (gstate_new W)) -> 0 <= w_value W ->
    do_call W (exec_nc f W) G2 (EvmEtherProofs.tx_call W to) = XDone (G3, r) ->
    (forall a, pre_warm_model W a = true -> acc_warm (gdb W G2) (gs G3) a = true) /\
    (forall a k, al_slot (w_access_list W) a k = true -> slot_warm (gdb W G2) (gs G3) a k = true).
Proof. exact tx_level_warm_survives. Qed.

(* non-vacuity.  CANCUN; access list [(0x1000, [9])]; the code of 0x1000 calls itself with one
   byte of input; the child (input present) reads slot 7 and reverts; the parent then reads
   slot 7 twice and slot 9 once.  Slot 7 is cold in the child AND cold again in the parent (the
   child's access is forgotten), warm the second time in the parent; the access-list slot 9 is
   warm; the access-list address 0x1000 is warm for the CALL.  Gas: 21000 + 2400 + 1900
   intrinsic; 35 for the parent's pushes etc. + 3 memory + 100 warm CALL; 27 + 2100 in the child;
   2 + (5 + 2100) + (5 + 100) + (5 + 100) in the parent = 29882. *)
Definition exa_code : list Z :=
  [0x36; 0x60;0x21; 0x57;
   0x60;0; 0x60;0; 0x60;1; 0x60;0; 0x60;0; 0x30; 0x61;0xc3;0x50; 0xf1; 0x50;
   0x60;7; 0x54; 0x50;  0x60;7; 0x54; 0x50;  0x60;9; 0x54; 0x50;  0x00;
   0x5b; 0x60;7; 0x54; 0x50; 0x60;0; 0x60;0; 0xfd].
Definition exa_world : Step.world :=
  Step.mkW 17 (E.mkEnv (E.mainnet_cfg 1) (E.mkBlock (2^256-1) 0 true (Some 1))
                  (E.mkTx 200000 1 false 0 [] (Some 7) None [1] None [] None None))
      0xCA11E4 (Some 0x1000) 0 [] [] [(0x1000, [9])] [] 0xC01BBA5E 100 1700000000 0 0x1234
      [(0x1000, (5, 1, 77)); (0xCA11E4, (10^30, 7, 0))]
      [(0x1000, 7, 11); (0x1000, 9, 12)] [(77, exa_code)] [].
Definition exa_G2 : gstate :=
  match tx_pre_state exa_world with Some G => G | None => gstate_new exa_world end.
(* the answers to the SLOADs along a history, with their keys *)
Definition sload_answers (d : Host.db) (sc : Host.jstate * list Host.checkpoint_t) (h : list Host.hop) :=
  concat (map (fun p => match fst p with Host.HSload _ k => [(k, snd p)] | _ => [] end)
              (combine h (model_trace d sc h))).

Lemma exa_WF0 : WF (gdb exa_world (gstate_new exa_world)) (gs (gstate_new exa_world)).
Proof.
  split; [split|split].
  - intros a acc H. discriminate.
  - intros a b n c. cbn [gdb the_db Host.db_basic]. unfold exa_world. cbn [w_accounts acc_lookup].
    destruct (0x1000 =? a); [intros [= <- _ _]; unfold_pows; lia|].
    destruct (0xCA11E4 =? a); [intros [= <- _ _]; unfold_pows; lia|discriminate].
  - intros a acc H. discriminate.
  - cbn. congruence.
Qed.

Example C34_interpreter_example :
  tx_pre_state exa_world = Some exa_G2 /\
  WF (gdb exa_world exa_G2) (gs exa_G2) /\
  (match do_call_h exa_world (exec_nc_h 100 exa_world) exa_G2 (EvmEtherProofs.tx_call exa_world 0x1000) with
   | XDone (G3, r, h) =>
       ir_res r = R_Stop /\
       sload_answers (gdb exa_world exa_G2) (gs exa_G2, []) h = [(7, [true]); (7, [true]); (7, [false]); (9, [false])] /\
       (* the CALL's load of the access-list address 0x1000 is warm *)
       nth 6 (model_trace (gdb exa_world exa_G2) (gs exa_G2, []) h) [] = [false]
   | _ => False end) /\
  (match run_tx 100 exa_world with
   | XDone t => tr_class t = 0 /\ tr_gas_used t = 29882 /\
                29882 = 21000 + 2400 + 1900 + (35 + 3 + 100) + (27 + 2100) + 2 + (5 + 2100) + (5 + 100) + (5 + 100)
   | _ => False end).
Proof.
  assert (E : tx_pre_state exa_world = Some exa_G2).
  { unfold exa_G2. destruct (tx_pre_state exa_world) eqn:E0; [reflexivity|]. vm_compute in E0. discriminate. }
  split; [exact E|]. split; [exact (tx_pre_state_WF exa_world exa_G2 E exa_WF0)|].
  split; vm_compute; repeat split; reflexivity.
Qed.
