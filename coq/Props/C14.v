(* C14 — dynamic gas formulas (crates/interpreter/src/gas/calc.rs, constants.rs, num_words,
   SpecId::is_enabled_in).  Only statements; proofs live in Proofs/GasCalcProofs.v.
   Model side: RevmV.Model.GasCalc (mirror of calc.rs, constants and fork matrix reflected from
   the compiled code into Gen/GasConst.v, Gen/Specs.v).  Specification side: RevmV.Spec.GasSpec
   (module S), the EIP formulas on unbounded integers. *)
From RevmV Require Import Base.Word.
From RevmV Require Gen.GasConst.
From RevmV Require Import Gen.Specs Model.GasCalc Proofs.GasCalcProofs Proofs.GasWiringProofs.
From RevmV Require Corr.C14.
From RevmV Require Spec.GasSpec.
From Coq Require Import List Bool.
Import ListNotations.
Local Open Scope Z_scope.
Module S := GasSpec.

(* ---------- finite tables (reflected from the compiled code) ---------- *)
(* the executed SpecId::enabled matrix = chronological fork order, for all 21 x 21 cells *)
Theorem C14_enabled_matrix :
  forallb (fun a => forallb (fun b => Bool.eqb (Specs.is_enabled_in a b) (S.since a b)) Specs.all_specs)
          Specs.all_specs = true.
Proof. exact enabled_table_forallb. Qed.
Theorem C14_enabled_is_since : forall a b, Specs.is_enabled_in a b = S.since a b.
Proof. exact enabled_is_since. Qed.
Theorem C14_enabled_is_discriminant_order :
  forall a b, Specs.is_enabled_in a b = (Specs.spec_disc b <=? Specs.spec_disc a).
Proof. exact enabled_is_disc. Qed.
Theorem C14_all_specs_complete : forall s, In s Specs.all_specs.
Proof. exact all_specs_complete. Qed.

(* every gas constant has the value the Yellow Paper / EIPs give *)
Theorem C14_constants :
  GasConst.ZERO = 0 /\ GasConst.BASE = 2 /\ GasConst.VERYLOW = 3 /\ GasConst.LOW = 5 /\ GasConst.MID = 8 /\
  GasConst.HIGH = 10 /\ GasConst.JUMPDEST = 1 /\ GasConst.SELFDESTRUCT = 24000 /\ GasConst.CREATE = 32000 /\
  GasConst.CALLVALUE = 9000 /\ GasConst.NEWACCOUNT = 25000 /\ GasConst.EXP = 10 /\ GasConst.MEMORY = 3 /\
  GasConst.LOG = 375 /\ GasConst.LOGDATA = 8 /\ GasConst.LOGTOPIC = 375 /\ GasConst.KECCAK256 = 30 /\
  GasConst.KECCAK256WORD = 6 /\ GasConst.COPY = 3 /\ GasConst.BLOCKHASH = 20 /\ GasConst.CODEDEPOSIT = 200 /\
  GasConst.INSTANBUL_SLOAD_GAS = 800 /\ GasConst.SSTORE_SET = 20000 /\ GasConst.SSTORE_RESET = 5000 /\
  GasConst.REFUND_SSTORE_CLEARS = 15000 /\ GasConst.STANDARD_TOKEN_COST = 4 /\
  GasConst.NON_ZERO_BYTE_DATA_COST = 68 /\ GasConst.NON_ZERO_BYTE_MULTIPLIER = 17 /\
  GasConst.NON_ZERO_BYTE_DATA_COST_ISTANBUL = 16 /\ GasConst.NON_ZERO_BYTE_MULTIPLIER_ISTANBUL = 4 /\
  GasConst.TOTAL_COST_FLOOR_PER_TOKEN = 10 /\ GasConst.EOF_CREATE_GAS = 32000 /\
  GasConst.ACCESS_LIST_ADDRESS = 2400 /\ GasConst.ACCESS_LIST_STORAGE_KEY = 1900 /\
  GasConst.COLD_SLOAD_COST = 2100 /\ GasConst.COLD_ACCOUNT_ACCESS_COST = 2600 /\
  GasConst.WARM_STORAGE_READ_COST = 100 /\ GasConst.WARM_SSTORE_RESET = 2900 /\
  GasConst.INITCODE_WORD_COST = 2 /\ GasConst.CALL_STIPEND = 2300 /\ GasConst.MIN_CALLEE_GAS = 2300 /\
  GasConst.MAX_CODE_SIZE = 24576 /\ GasConst.MAX_INITCODE_SIZE = 49152 /\
  GasConst.PER_AUTH_BASE_COST = 12500 /\ GasConst.PER_EMPTY_ACCOUNT_COST = 25000.
Proof. repeat split; reflexivity. Qed.

(* ---------- per-word costs: Some v <-> the EIP value fits in u64 and v is that value ---------- *)
(* Domain: len <= 2^64 - 32.  For the 31 lengths above, num_words saturates and is one word
   short (known finding C14-num-words-top31, see C14_per_word_top31_refuted below). *)
Theorem C14_num_words :
  forall len, in_u64 len -> len <= pow64 - 32 -> num_words len = (len + 31) / 32.
Proof. exact num_words_exact. Qed.

Theorem C14_cost_per_word :
  forall len m v, in_u64 len -> len <= pow64 - 32 -> 0 <= m ->
    (cost_per_word len m = Some v <-> m * ((len + 31) / 32) < pow64 /\ v = m * ((len + 31) / 32)).
Proof. exact cost_per_word_iff. Qed.

Theorem C14_verylowcopy_cost :
  forall len v, in_u64 len -> len <= pow64 - 32 ->
    (verylowcopy_cost len = Some v <-> S.copy_cost len < pow64 /\ v = S.copy_cost len).
Proof. exact verylowcopy_cost_iff. Qed.

Theorem C14_extcodecopy_cost :
  forall s len cold v, in_u64 len -> len <= pow64 - 32 ->
    (extcodecopy_cost s len cold = Some v
     <-> S.extcodecopy_cost s len cold < pow64 /\ v = S.extcodecopy_cost s len cold).
Proof. exact extcodecopy_cost_iff. Qed.

Theorem C14_keccak256_cost :
  forall len v, in_u64 len -> len <= pow64 - 32 ->
    (keccak256_cost len = Some v <-> S.keccak256_cost len < pow64 /\ v = S.keccak256_cost len).
Proof. exact keccak256_cost_iff. Qed.

Theorem C14_create2_cost :
  forall len v, in_u64 len -> len <= pow64 - 32 ->
    (create2_cost len = Some v <-> S.create2_cost len < pow64 /\ v = S.create2_cost len).
Proof. exact create2_cost_iff. Qed.

Theorem C14_log_cost :
  forall n len v, 0 <= n < 256 -> in_u64 len ->
    (log_cost n len = Some v <-> S.log_cost n len < pow64 /\ v = S.log_cost n len).
Proof. exact log_cost_iff. Qed.

Theorem C14_initcode_cost :
  forall len, in_u64 len -> len <= pow64 - 32 -> initcode_cost len = Some (S.initcode_cost len).
Proof. exact initcode_cost_exact. Qed.
Theorem C14_initcode_cost_never_panics :
  forall len, in_u64 len -> exists v, initcode_cost len = Some v.
Proof. exact initcode_cost_never_panics. Qed.

(* the statement "for every argument" is false of the code for the 31 top lengths *)
Theorem C14_per_word_top31_refuted :
  exists len, in_u64 len /\ S.keccak256_cost len < pow64 /\
              keccak256_cost len <> Some (S.keccak256_cost len) /\
              verylowcopy_cost len <> Some (S.copy_cost len) /\
              num_words len <> S.words len.
Proof. exact per_word_top31_refuted. Qed.
(* ... and exactly by one word *)
Theorem C14_cost_per_word_top31 :
  forall len m, pow64 - 32 < len < pow64 -> 0 <= m ->
    cost_per_word len m = checked64 (m * 576460752303423487) /\
    S.cost_per_word len m = m * 576460752303423488.
Proof. exact cost_per_word_top31. Qed.

(* EXP: always fits, 10 + (10 | 50 from SPURIOUS_DRAGON) per byte of the exponent; includes
   log2floor (limb loop) = floor(log2) for every 256-bit word *)
Theorem C14_exp_cost :
  forall s p, 0 <= p < pow256 -> exp_cost s p = Some (S.exp_cost s p).
Proof. exact exp_cost_eq. Qed.
Theorem C14_log2floor :
  forall v, 0 <= v < pow256 -> log2floor v = Z.log2 v.
Proof. exact log2floor_eq. Qed.

(* memory: min(3w + w^2/512, 2^64-1) for every u64 word count *)
Theorem C14_memory_gas :
  forall w, in_u64 w -> memory_gas w = Z.min (3 * w + w * w / 512) (pow64 - 1).
Proof. exact memory_gas_exact. Qed.
Theorem C14_memory_gas_for_len :
  forall len, in_u64 len -> len <= pow64 - 32 ->
    memory_gas_for_len len = Z.min (S.memory_cost ((len + 31) / 32)) (pow64 - 1).
Proof. exact memory_gas_for_len_exact. Qed.
Theorem C14_memory_expansion_charge :
  forall w1 w2, in_u64 w1 -> in_u64 w2 -> S.memory_cost w1 < pow64 -> S.memory_cost w2 < pow64 ->
    memory_gas w2 - memory_gas w1 = S.memory_cost w2 - S.memory_cost w1.
Proof. exact memory_expansion_charge. Qed.

(* ---------- storage, self-destruct, calls: every fork, every relation of the three values ---------- *)
Theorem C14_sload_cost : forall s cold, sload_cost s cold = S.sload_cost s cold.
Proof. exact sload_cost_eq. Qed.
Theorem C14_sstore_cost :
  forall s original present new gas cold,
    sstore_cost s (mkSStore original present new) gas cold = S.sstore_cost s original present new gas cold.
Proof. exact sstore_cost_eq. Qed.
Theorem C14_sstore_refund :
  forall s original present new,
    sstore_refund s (mkSStore original present new) = S.sstore_refund s original present new.
Proof. exact sstore_refund_eq. Qed.
Theorem C14_selfdestruct_cost :
  forall s had_value target_exists cold,
    selfdestruct_cost s had_value target_exists cold = S.selfdestruct_cost s had_value target_exists cold.
Proof. exact selfdestruct_cost_eq. Qed.
Theorem C14_call_cost :
  forall s transfers_value cold delegate is_empty,
    call_cost s transfers_value cold delegate is_empty = S.call_cost s transfers_value cold delegate is_empty.
Proof. exact call_cost_eq. Qed.
Theorem C14_warm_cold_cost : forall cold, warm_cold_cost cold = if cold then 2600 else 100.
Proof. exact warm_cold_cost_eq. Qed.
Theorem C14_warm_cold_cost_with_delegation :
  forall s cold delegate, S.since s BERLIN = true ->
    warm_cold_cost_with_delegation cold delegate = S.call_access_cost s cold delegate.
Proof. exact warm_cold_cost_with_delegation_eq. Qed.

(* ---------- transaction: tokens, floor, intrinsic gas ---------- *)
(* lengths < 2^32: under this bound no unguarded u64/usize sum of the Rust code can overflow
   (the _chk model returns Some), and the sums are the EIP-2/2028/2930/3860/7623/7702 sums *)
Theorem C14_get_tokens_in_calldata :
  forall input istanbul, len input < 4294967296 ->
    get_tokens_in_calldata_chk input istanbul = Some (S.tokens input istanbul).
Proof. exact get_tokens_in_calldata_eq. Qed.
Theorem C14_calc_tx_floor_cost :
  forall t v, in_u64 t ->
    (calc_tx_floor_cost_chk t = Some v <-> 21000 + 10 * t < pow64 /\ v = 21000 + 10 * t).
Proof. exact calc_tx_floor_cost_iff. Qed.
Theorem C14_calculate_initial_tx_gas :
  forall s input is_create access_keys auths,
    len input < 4294967296 -> len access_keys < 4294967296 ->
    Forall (fun k => 0 <= k) access_keys -> S.sum_list access_keys < 4294967296 ->
    0 <= auths < 4294967296 ->
    calculate_initial_tx_gas_chk s input is_create access_keys auths =
    Some (S.intrinsic_gas s input is_create access_keys auths, S.floor_gas s input).
Proof. exact calculate_initial_tx_gas_eq. Qed.

(* ---------- wiring: gas charged by the real opcodes ---------- *)
(* Corr.C14.op_model replays what the instruction does (PUSH charges, the dynamic cost through
   Model.GasCalc, resize_memory! through memory_gas and the current expansion cost);
   Corr.C14.op_spec is the EIP total (3 per PUSH + formula + memory cost of the final size),
   out of gas iff the total exceeds the gas limit.  Kinds: 0 KECCAK256, 1 CALLDATACOPY, 2 LOGn,
   3 EXP, 4 SLOAD, 5 SSTORE (cost and refund counter), 6 MSTORE twice (second expansion charged
   the difference), 7 EXTCODECOPY, 8 SELFDESTRUCT (cost and pre-LONDON refund), 9 CREATE2
   (initcode + memory + CREATE/hash cost, EIP-3860 size limit, gas handed to the init code),
   10 CALL (access + value + new-account cost, gas handed to the callee incl. stipend). *)
Theorem C14_wiring_keccak256 :
  forall s a b c cold limit, in_u64 limit -> in_u64 a -> a <= pow64 - 32 ->
    C14.op_model 0 s a b c cold limit = C14.op_spec 0 s a b c cold limit.
Proof. exact wiring_keccak256. Qed.
Theorem C14_wiring_calldatacopy :
  forall s a b c cold limit, in_u64 limit -> in_u64 a -> a <= pow64 - 32 ->
    C14.op_model 1 s a b c cold limit = C14.op_spec 1 s a b c cold limit.
Proof. exact wiring_calldatacopy. Qed.
Theorem C14_wiring_log :
  forall s a b c cold limit, in_u64 limit -> in_u64 a -> a <= pow64 - 32 -> 0 <= b <= 4 ->
    C14.op_model 2 s a b c cold limit = C14.op_spec 2 s a b c cold limit.
Proof. exact wiring_log. Qed.
Theorem C14_wiring_exp :
  forall s a b c cold limit, 0 <= a < pow256 ->
    C14.op_model 3 s a b c cold limit = C14.op_spec 3 s a b c cold limit.
Proof. exact wiring_exp. Qed.
Theorem C14_wiring_sload :
  forall s a b c cold limit, C14.op_model 4 s a b c cold limit = C14.op_spec 4 s a b c cold limit.
Proof. exact wiring_sload. Qed.
Theorem C14_wiring_sstore :
  forall s a b c cold limit, C14.op_model 5 s a b c cold limit = C14.op_spec 5 s a b c cold limit.
Proof. exact wiring_sstore. Qed.
Theorem C14_wiring_mstore_twice :
  forall s a b c cold limit, in_u64 limit -> 0 <= a <= pow64 - 64 -> 0 <= b <= pow64 - 64 ->
    C14.op_model 6 s a b c cold limit = C14.op_spec 6 s a b c cold limit.
Proof. exact wiring_mstore_twice. Qed.
Theorem C14_wiring_extcodecopy :
  forall s a b c cold limit, in_u64 limit -> in_u64 a -> a <= pow64 - 32 ->
    C14.op_model 7 s a b c cold limit = C14.op_spec 7 s a b c cold limit.
Proof. exact wiring_extcodecopy. Qed.
Theorem C14_wiring_selfdestruct :
  forall s a b c cold limit, C14.op_model 8 s a b c cold limit = C14.op_spec 8 s a b c cold limit.
Proof. exact wiring_selfdestruct. Qed.

Theorem C14_wiring_create2 :
  forall s a b c cold limit, S.since s PETERSBURG = true -> in_u64 limit -> in_u64 a -> a <= pow64 - 32 ->
    C14.op_model 9 s a b c cold limit = C14.op_spec 9 s a b c cold limit.
Proof. exact wiring_create2. Qed.
Theorem C14_wiring_call :
  forall s a b c cold limit, in_u64 limit -> 0 <= b < pow256 ->
    C14.op_model 10 s a b c cold limit = C14.op_spec 10 s a b c cold limit.
Proof. exact wiring_call. Qed.

(* non-vacuity / pinned values *)
Example C14_examples :
  S.sstore_gas_refund LONDON 1 1 0 true = (5000, 4800) /\
  S.sstore_gas_refund ISTANBUL 1 0 1 false = (800, -15000 + 4200) /\
  S.sstore_gas_refund PETERSBURG 7 7 0 false = (5000, 15000) /\
  keccak256_cost 33 = Some 42 /\ memory_gas 4294967296 = 36028809903865856 /\
  memory_gas 68719476736 = 9223372243013206016 /\
  exp_cost CANCUN (pow256 - 1) = Some 1610 /\ exp_cost HOMESTEAD 256 = Some 30 /\
  calculate_initial_tx_gas_chk PRAGUE [0; 1; 2; 0] true [2; 0] 1 = Some (53000 + 8 + 32 + 4800 + 3800 + 2 + 25000, 21000 + 100) /\
  C14.op_spec 0 CANCUN 33 0 0 false 100000 = Some (6 + 42 + 6, 0) /\
  C14.op_model 9 SHANGHAI 33 0 0 false 100000 = Some (12 + 32012 + 4 + 6, (100000 - 32034) - (100000 - 32034) / 64) /\
  (in_u64 33 /\ 33 <= pow64 - 32).
Proof. vm_compute. repeat split; congruence. Qed.
