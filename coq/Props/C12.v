(* C12 — the interpreter stack is a LIFO list of at most 1024 256-bit words; an operation that
   would underflow or overflow reports the error and leaves the stack unchanged; pushing a
   byte slice pushes its big-endian words (a short last chunk right-aligned, DESIGN.md 6.1).
   Only statements; proofs in Proofs/StackProofs.v.  Model/Stack.v is the Rust Vec (top last,
   the code's index arithmetic and guards), Spec/StackSpec.v the abstract LIFO (top first). *)
From RevmV Require Import Base.Word Model.Stack Spec.StackSpec Proofs.StackProofs.
Local Open Scope Z_scope.

(* The length never exceeds 1024, for ALL operation lists (no assumption on arguments). *)
Theorem C12_length_invariant :
  forall (h : list stack_op) (d : stack),
    slen d <= STACK_LIMIT -> slen (stack_run d h) <= STACK_LIMIT.
Proof. exact run_len. Qed.

Theorem C12_length_invariant_from_empty :
  forall h : list stack_op, slen (stack_run [] h) <= 1024.
Proof. intros h. apply (run_len h []). unfold slen, STACK_LIMIT. cbn. lia. Qed.

(* Every method equals the abstract LIFO operation (result/error value and new contents),
   for every stack within the limit and all machine-valued arguments. [rev] turns the
   top-first abstract list into the vector. *)
Theorem C12_step_is_lifo :
  forall (l : lifo) (o : stack_op),
    (length l <= LIMIT)%nat -> op_wf o ->
    stack_step (rev l) o = (rev (fst (a_step l o)), snd (a_step l o)).
Proof. intros l o H. exact (step_refines l H o). Qed.

(* ... and so do whole histories *)
Theorem C12_history_is_lifo :
  forall (h : list stack_op) (l : lifo),
    (length l <= LIMIT)%nat -> Forall op_wf h -> stack_run (rev l) h = rev (a_run l h).
Proof. exact run_refines. Qed.

(* An operation that does not succeed (error, or violated [assume!] precondition) leaves the
   stack unchanged — no assumption on the arguments. *)
Theorem C12_error_leaves_stack_unchanged :
  forall (d d' : stack) (o : stack_op) (r : outcome),
    stack_step d o = (d', r) -> (forall v, r <> Ok v) -> d' = d.
Proof. intros d d' o r. exact (step_error_unchanged d o d' r). Qed.

(* The bounds argument of the unsafe code: dup reads index len-n and writes index len *)
Theorem C12_dup_indices_in_bounds :
  forall (d : stack) (n : Z), snd (dup d n) = Ok 0 ->
    0 <= dup_src d n < slen d /\ dup_dst d < STACK_LIMIT /\ dup_src d n <> dup_dst d.
Proof. exact dup_indices. Qed.

(* exchange swaps two distinct indices inside the live part of the vector *)
Theorem C12_exchange_indices_in_bounds :
  forall (d : stack) (n m : Z), in_u64 n -> in_u64 m -> snd (exchange d n m) = Ok 0 ->
    0 <= exch_i1 d n < slen d /\ 0 <= exch_i2 d n m < slen d /\ exch_i1 d n <> exch_i2 d n m.
Proof. exact exchange_indices. Qed.

(* push_slice writes exactly 4 * n_words limbs (nothing past the new length, nothing left
   uninitialised), and n_words words result — the debug_assert as a lemma *)
Theorem C12_push_slice_limb_count :
  forall bs : list Z, bs <> [] ->
    Z.of_nat (length (push_slice_limbs bs)) = 4 * n_words bs /\
    Z.of_nat (length (words_of_limbs (push_slice_limbs bs))) = n_words bs.
Proof. intros bs H. split; [apply push_slice_limbs_length; exact H | apply push_slice_limbs_count]. Qed.

(* push_slice in closed form, for EVERY byte list: the overflow check is exact
   (error iff len + ceil(|bs|/32) > 1024, stack unchanged), otherwise the big-endian values of
   the consecutive 32-byte chunks are appended in order (last chunk on top). *)
Theorem C12_push_slice_exact :
  forall (d : stack) (bs : list Z), slen d <= STACK_LIMIT ->
    push_slice d bs =
    if slen d + (Z.of_nat (length bs) + 31) / 32 <=? STACK_LIMIT
    then (d ++ map be_value (chunks 32 bs), Ok 0) else (d, Err StackOverflow).
Proof. exact push_slice_exact. Qed.

(* note 6.1: a short last chunk is right-aligned — its word is that of the chunk LEFT-padded
   with zero bytes; every pushed word is a 256-bit word *)
Theorem C12_short_chunk_right_aligned :
  forall c : list Z, (length c <= 32)%nat -> be_value c = be_value (zeros (32 - length c) ++ c).
Proof. exact be_value_right_aligned. Qed.

Theorem C12_chunk_word_is_u256 :
  forall c : list Z, Forall is_byte c -> (length c <= 32)%nat -> in_u256 (be_value c).
Proof. exact be_value_u256. Qed.

(* the literal reading "right-padded" (left-aligned) is NOT what the code does *)
Theorem C12_left_aligned_reading_refuted :
  exists bs, snd (push_slice [] bs) = Ok 0 /\ Forall is_byte bs /\
             fst (push_slice [] bs) <> [be_value (bs ++ zeros (32 - length bs))].
Proof. exists [42]. vm_compute. repeat split; try discriminate. repeat constructor; discriminate. Qed.

(* non-vacuity *)
Example C12_history_hypotheses_satisfiable :
  Forall op_wf [OPush 7; OPushSlice [1; 2; 3]; ODup 2; OSwap 1; OExchange 0 2; OPop; OPeek 0; OSet 1 9]
  /\ stack_run [] [OPush 7; OPushSlice [1; 2; 3]; ODup 2; OSwap 1; OExchange 0 2; OPop; OPeek 0; OSet 1 9]
     = [9; 7].
Proof. split; [|vm_compute; reflexivity]. repeat constructor; unfold in_u64, in_u256, is_byte; cbn; lia. Qed.

Example C12_pinned_unit_test_push_slices :
  fst (push_slice [] [42]) = [42] /\
  fst (push_slice [] (zeros 32 ++ [42])) = [0; 42].
Proof. vm_compute. split; reflexivity. Qed.

(* ================================================================ composition with the reference
   interpreter of C01 (Model/Step.v + Model/Evm.v; its stack is a top-first list and Step.v
   performs the pop! / push! checks of each instruction itself, so the statements are proved
   directly on it).  Proofs in Proofs/EvmMiscStack.v.
   The reference for how many words an instruction takes and leaves is NOT the model: [op_io] reads
   (inputs, outputs) from Gen/OpInfo.v, the table reflected from the compiled revm
   (OPCODE_INFO_JUMPTABLE).  [reach]: the states a run executes an instruction from (C04/C07). *)
From RevmV Require Import Model.Step Model.Evm Proofs.EvmProofs Proofs.EvmMiscProofs Proofs.EvmMiscStack.

(* one instruction, every opcode / hardfork / state: if the frame continues, the instruction took
   [inputs] words (they were there) and left [outputs], and the stack holds at most 1024 words; a
   call / create took its inputs and its one output is pushed when the frame resumes;
   StackUnderflow is reported only when fewer than [inputs] words are there, StackOverflow only
   when the result would exceed 1024 words; in both cases the output is empty and the transaction
   state is exactly what it was (one exception, which is what revm does: SELFBALANCE asks the host
   before it pushes, so on a full stack the executing account has been (re-)loaded) *)
Theorem C12_interpreter_instruction_stack_effect :
  forall W G F I G' x,
    Step.zlen (i_stk I) <= 1024 -> step W G F I = (G', x) ->
    let op := opcode_at F (i_pc I) in
    let ins := fst (op_io op) in let outs := snd (op_io op) in let n := Step.zlen (i_stk I) in
    match x with
    | SNext I' => ins <= n /\ Step.zlen (i_stk I') = n - ins + outs /\ Step.zlen (i_stk I') <= 1024
    | SCall _ I' | SCreate _ I' => 1 <= ins <= n /\ Step.zlen (i_stk I') = n - ins /\ outs = 1
    | SEnd r out I' =>
        (r = R_StackUnderflow -> n < ins /\ out = [] /\ G' = G) /\
        (r = R_StackOverflow -> ins <= n /\ 1024 < n - ins + outs /\ out = [] /\
           (G' = G \/ (op = 0x47 /\ G' = set_s G (fst (H.load_account (gdb W G) (gs G) (f_target F))))))
    | SBad _ => True
    end.
Proof. exact step_stack. Qed.

(* an instruction whose inputs exceed the stack never continues: the frame ends *)
Theorem C12_interpreter_short_stack_ends_frame :
  forall W G F I,
    Step.zlen (i_stk I) <= 1024 -> Step.zlen (i_stk I) < fst (op_io (opcode_at F (i_pc I))) ->
    match snd (step W G F I) with SEnd _ _ _ | SBad _ => True | _ => False end.
Proof. exact step_short_stack_ends. Qed.

(* the caller resumed after a call / create has the table's effect as well *)
Theorem C12_interpreter_call_stack_effect :
  forall W G F I G1 c I1 r I2,
    Step.zlen (i_stk I) <= 1024 -> step W G F I = (G1, SCall c I1) -> insert_call_outcome I1 c r = Some I2 ->
    let ins := fst (op_io (opcode_at F (i_pc I))) in
    Step.zlen (i_stk I2) = Step.zlen (i_stk I) - ins + snd (op_io (opcode_at F (i_pc I))) /\
    Step.zlen (i_stk I2) <= 1024.
Proof. exact call_stack_effect. Qed.
Theorem C12_interpreter_create_stack_effect :
  forall W G F I G1 c I1 r a I2,
    Step.zlen (i_stk I) <= 1024 -> step W G F I = (G1, SCreate c I1) -> insert_create_outcome I1 r a = Some I2 ->
    let ins := fst (op_io (opcode_at F (i_pc I))) in
    Step.zlen (i_stk I2) = Step.zlen (i_stk I) - ins + snd (op_io (opcode_at F (i_pc I))) /\
    Step.zlen (i_stk I2) <= 1024.
Proof. exact create_stack_effect. Qed.

(* along a whole run — the frame itself and every frame nested below it, each starting with an
   empty stack — no state holds more than 1024 words *)
Theorem C12_interpreter_stack_bounded :
  forall W f G F I Gx Fx Ix,
    reach W f G F I Gx Fx Ix -> Step.zlen (i_stk I) <= 1024 -> Step.zlen (i_stk Ix) <= 1024.
Proof. exact reach_stack. Qed.

(* non-vacuity: PUSH1 1; PUSH1 2; ADD; POP; POP; STOP — the second POP underflows; a PUSH1 on 1024
   words overflows; both leave the state alone; the run reaches the state before the second POP *)
Definition ex12_code : list Z := [0x60; 1; 0x60; 2; 0x01; 0x50; 0x50; 0x00].
Example C12_interpreter_example :
  let W := mx_world ex12_code in let F := mx_frame ex12_code in let G := gstate_new W in
  op_io 0x01 = (2, 1) /\ op_io 0x50 = (1, 0) /\ op_io 0xf1 = (7, 1) /\
  (exists I', step W G F (mkI 6 [] M.mem_new (Gas.gas_new 100) []) = (G, SEnd R_StackUnderflow [] I')) /\
  (exists I', step W G F (mkI 0 (repeat 0 1024) M.mem_new (Gas.gas_new 100) []) = (G, SEnd R_StackOverflow [] I')) /\
  (exists g, reach W 5 G F (istate_new 100) G F (mkI 6 [] M.mem_new g [])).
Proof.
  intros W F G. split; [reflexivity|]. split; [reflexivity|]. split; [reflexivity|]. split; [|split].
  - eexists. vm_compute. reflexivity.
  - eexists. vm_compute. reflexivity.
  - eexists. do 4 (eapply RNext; [vm_compute; reflexivity|]). apply RHere.
Qed.

(* two readings that are FALSE of the interpreter (and of revm), kept as witnesses.
   (1) "a stack error leaves the frame's stack unchanged": CALL pops gas, address and value before
   it asks for the four memory operands, so with 3 words the frame ends with StackUnderflow holding
   an emptied stack (the Stack methods each leave it unchanged - C12_error_leaves_stack_unchanged -
   but the instruction is several method calls; the halted frame's stack is dead anyway). *)
Theorem C12_interpreter_error_leaves_frame_stack_unchanged_refuted :
  exists W G F I G' out I',
    Step.zlen (i_stk I) <= 1024 /\ step W G F I = (G', SEnd R_StackUnderflow out I') /\ i_stk I' <> i_stk I.
Proof.
  exists (mx_world [0xf1]), (gstate_new (mx_world [0xf1])), (mx_frame [0xf1]),
         (mkI 0 [1; 2; 3] M.mem_new (Gas.gas_new 100) []).
  eexists. eexists. eexists. split; [vm_compute; discriminate|]. split; [vm_compute; reflexivity|]. vm_compute. discriminate.
Qed.
(* (2) "StackOverflow never changes the transaction state": SELFBALANCE on 1024 words, executed in
   a state that does not hold the executing account yet, ends with StackOverflow after the host
   loaded it (in a real run the executing account is already loaded and warm, so the load is the
   identity there; the theorem above states the exception instead of assuming that) *)
Theorem C12_interpreter_overflow_leaves_state_unchanged_refuted :
  exists W G F I G' out I',
    Step.zlen (i_stk I) <= 1024 /\ step W G F I = (G', SEnd R_StackOverflow out I') /\
    H.st (gs G) (f_target F) = None /\ H.st (gs G') (f_target F) <> None.
Proof.
  exists (mx_world [0x47]), (gstate_new (mx_world [0x47])), (mx_frame [0x47]),
         (mkI 0 (repeat 0 1024) M.mem_new (Gas.gas_new 100) []).
  eexists. eexists. eexists. split; [vm_compute; discriminate|]. split; [vm_compute; reflexivity|].
  split; [vm_compute; reflexivity|vm_compute; discriminate].
Qed.
