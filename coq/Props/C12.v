(* C12 — the interpreter stack is a LIFO list of at most 1024 256-bit words; an operation that
   would underflow or overflow reports the error and leaves the stack unchanged; pushing a
   byte slice pushes its big-endian words (a short last chunk right-aligned, DESIGN.md 6.1).
   Only statements; proofs in Proofs/StackProofs.v.  Model/Stack.v is the Rust Vec (top last,
   the code's index arithmetic and guards), Spec/StackSpec.v the abstract LIFO (top first). *)
From RevmV Require Import Base.Word Model.Stack Spec.StackSpec Proofs.StackProofs.
Local Open Scope Z_scope.

(* The length never exceeds 1024, for ALL operation lists (no assumption on arguments). *)
Theorem C12_length_invariant :
  forall (h : list stack_op) (d : stack),
    slen d <= STACK_LIMIT -> slen (stack_run d h) <= STACK_LIMIT.
Proof. exact run_len. Qed.

Theorem C12_length_invariant_from_empty :
  forall h : list stack_op, slen (stack_run [] h) <= 1024.
Proof. intros h. apply (run_len h []). unfold slen, STACK_LIMIT. cbn. lia. Qed.

(* Every method equals the abstract LIFO operation (result/error value and new contents),
   for every stack within the limit and all machine-valued arguments. [rev] turns the
   top-first abstract list into the vector. *)
Theorem C12_step_is_lifo :
  forall (l : lifo) (o : stack_op),
    (length l <= LIMIT)%nat -> op_wf o ->
    stack_step (rev l) o = (rev (fst (a_step l o)), snd (a_step l o)).
Proof. intros l o H. exact (step_refines l H o). Qed.

(* ... and so do whole histories *)
Theorem C12_history_is_lifo :
  forall (h : list stack_op) (l : lifo),
    (length l <= LIMIT)%nat -> Forall op_wf h -> stack_run (rev l) h = rev (a_run l h).
Proof. exact run_refines. Qed.

(* An operation that does not succeed (error, or violated [assume!] precondition) leaves the
   stack unchanged — no assumption on the arguments. *)
Theorem C12_error_leaves_stack_unchanged :
  forall (d d' : stack) (o : stack_op) (r : outcome),
    stack_step d o = (d', r) -> (forall v, r <> Ok v) -> d' = d.
Proof. intros d d' o r. exact (step_error_unchanged d o d' r). Qed.

(* The bounds argument of the unsafe code: dup reads index len-n and writes index len *)
Theorem C12_dup_indices_in_bounds :
  forall (d : stack) (n : Z), snd (dup d n) = Ok 0 ->
    0 <= dup_src d n < slen d /\ dup_dst d < STACK_LIMIT /\ dup_src d n <> dup_dst d.
Proof. exact dup_indices. Qed.

(* exchange swaps two distinct indices inside the live part of the vector *)
Theorem C12_exchange_indices_in_bounds :
  forall (d : stack) (n m : Z), in_u64 n -> in_u64 m -> snd (exchange d n m) = Ok 0 ->
    0 <= exch_i1 d n < slen d /\ 0 <= exch_i2 d n m < slen d /\ exch_i1 d n <> exch_i2 d n m.
Proof. exact exchange_indices. Qed.

(* push_slice writes exactly 4 * n_words limbs (nothing past the new length, nothing left
   uninitialised), and n_words words result — the debug_assert as a lemma *)
Theorem C12_push_slice_limb_count :
  forall bs : list Z, bs <> [] ->
    Z.of_nat (length (push_slice_limbs bs)) = 4 * n_words bs /\
    Z.of_nat (length (words_of_limbs (push_slice_limbs bs))) = n_words bs.
Proof. intros bs H. split; [apply push_slice_limbs_length; exact H | apply push_slice_limbs_count]. Qed.

(* push_slice in closed form, for EVERY byte list: the overflow check is exact
   (error iff len + ceil(|bs|/32) > 1024, stack unchanged), otherwise the big-endian values of
   the consecutive 32-byte chunks are appended in order (last chunk on top). *)
Theorem C12_push_slice_exact :
  forall (d : stack) (bs : list Z), slen d <= STACK_LIMIT ->
    push_slice d bs =
    if slen d + (Z.of_nat (length bs) + 31) / 32 <=? STACK_LIMIT
    then (d ++ map be_value (chunks 32 bs), Ok 0) else (d, Err StackOverflow).
Proof. exact push_slice_exact. Qed.

(* note 6.1: a short last chunk is right-aligned — its word is that of the chunk LEFT-padded
   with zero bytes; every pushed word is a 256-bit word *)
Theorem C12_short_chunk_right_aligned :
  forall c : list Z, (length c <= 32)%nat -> be_value c = be_value (zeros (32 - length c) ++ c).
Proof. exact be_value_right_aligned. Qed.

Theorem C12_chunk_word_is_u256 :
  forall c : list Z, Forall is_byte c -> (length c <= 32)%nat -> in_u256 (be_value c).
Proof. exact be_value_u256. Qed.

(* the literal reading "right-padded" (left-aligned) is NOT what the code does *)
Theorem C12_left_aligned_reading_refuted :
  exists bs, snd (push_slice [] bs) = Ok 0 /\ Forall is_byte bs /\
             fst (push_slice [] bs) <> [be_value (bs ++ zeros (32 - length bs))].
Proof. exists [42]. vm_compute. repeat split; try discriminate. repeat constructor; discriminate. Qed.

(* non-vacuity *)
Example C12_history_hypotheses_satisfiable :
  Forall op_wf [OPush 7; OPushSlice [1; 2; 3]; ODup 2; OSwap 1; OExchange 0 2; OPop; OPeek 0; OSet 1 9]
  /\ stack_run [] [OPush 7; OPushSlice [1; 2; 3]; ODup 2; OSwap 1; OExchange 0 2; OPop; OPeek 0; OSet 1 9]
     = [9; 7].
Proof. split; [|vm_compute; reflexivity]. repeat constructor; unfold in_u64, in_u256, is_byte; cbn; lia. Qed.

Example C12_pinned_unit_test_push_slices :
  fst (push_slice [] [42]) = [42] /\
  fst (push_slice [] (zeros 32 ++ [42])) = [0; 42].
Proof. vm_compute. split; reflexivity. Qed.
