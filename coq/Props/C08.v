(* C08 — ether is conserved by every transaction.
   Statements only; proofs in Proofs/EtherProofs.v, EtherOps.v, EtherHist.v, EtherFrames.v, EtherTx.v, and
   (composition with the reference interpreter of C01, sections (e) and (f)) Proofs/EvmEtherProofs.v.
   Model: Model/Host.v (JournaledState: transfer, create_account_checkpoint, selfdestruct,
   checkpoints), Model/Ether.v (observed balance, total over a finite universe, burnt ether
   according to the journal), Model/Settlement.v (fee settlement of C09).

   [total d s us] sums the observed balance (the loaded account's, else the database's) over a
   duplicate-free address list us that contains every address the operations name (covers).
   [jburn (journal s)] is the ether burnt according to the journal: the had_balance of every
   AccountDestroyed entry whose target is the destroyed account itself. A reverted checkpoint
   takes its entries with it, so the burnt amount of a history is exactly
   jburn (journal after) - jburn (journal before).

   Contract (hop_ok8): the C06 contract, the creator holds the endowment (create_inner checks it
   before create_account_checkpoint, whose `-=` would wrap otherwise), and the beneficiary of a
   self-destruct does not overflow. The last hypothesis is the recorded finding F13: where it
   fails the code wraps and exactly 2^256 wei vanish (C08_selfdestruct_to_other, _refuted below).
   The repaired F1 (transfer whose credit overflows) is inside C08_transfer_conserves. *)
From RevmV Require Import Base.Word Model.Gas Model.Envelope Model.Settlement Proofs.SettlementProofs.
From RevmV Require Import Model.Host Model.Ether Model.Frames Proofs.HostView Proofs.HostOps Proofs.HostMain
  Proofs.FramesProofs Proofs.EtherProofs Proofs.EtherOps Proofs.EtherHist Proofs.EtherFrames Proofs.EtherTx.
From RevmV Require Model.Step Model.Evm Proofs.EvmHistoryProofs Proofs.EvmEtherProofs.
Local Open Scope Z_scope.

(* the summed quantity is the balance component of the C06 observation *)
Theorem C08_balance_is_observed :
  forall d s a, bal d s a = v_bal (view_acc d s a).
Proof. exact bal_view. Qed.

(* ---------------------------------------------------------------- (a) operations other than self-destruct *)

(* load, load_delegated, touch, inc_nonce, set_code, sload, sstore, tload, tstore, log,
   checkpoint, commit: every observed balance stays, nothing is burnt *)
Theorem C08_plain_operations_move_no_ether :
  forall d s cps o s' cps',
    journal s <> [] -> moves_no_ether o -> run_hop d (s, cps) o = Some (s', cps') ->
    (forall x, bal d s' x = bal d s x) /\ jburn (journal s') = jburn (journal s).
Proof. exact plain_hop_same8. Qed.

(* transfer, whatever its outcome (done, OutOfFunds, OverflowPayment) and whatever the balances
   (from = to included) *)
Theorem C08_transfer_conserves :
  forall d s f t v s' r us,
    WF d s -> 0 <= v -> NoDup us -> In f us -> In t us ->
    transfer d s f t v = Some (s', r) ->
    total d s' us = total d s us /\ jburn (journal s') = jburn (journal s).
Proof. exact transfer_total. Qed.

(* create_account_checkpoint, whatever its outcome (created, collision, endowment overflow) *)
Theorem C08_create_conserves :
  forall d s c a hs v s' r us,
    WF d s -> hop_ok d s (HCreate c a hs v) -> v <= bal d s c ->
    NoDup us -> In c us -> In a us ->
    create_account_checkpoint s c a hs v (spurious s) = Some (s', r) ->
    total d s' us = total d s us /\ jburn (journal s') = jburn (journal s).
Proof. exact create_total. Qed.

(* revert (corollary of C06): after any history within the C06 contract, reverting the checkpoint
   gives back every balance, the total and the burnt amount. No overflow hypothesis is needed:
   a self-destruct credit that wrapped is undone as well. *)
Theorem C08_revert_restores_total :
  forall d us s h s1 cp s2 cps,
    WF d s -> checkpoint s = (s1, cp) -> contract d (s1, []) h ->
    run_hops d (s1, []) h = Some (s2, cps) ->
    exists s3, checkpoint_revert s2 cp = Some s3 /\ (forall x, bal d s3 x = bal d s x) /\
               total d s3 us = total d s us /\ jburn (journal s3) = jburn (journal s).
Proof. exact revert_restores_total. Qed.

(* ---------------------------------------------------------------- (b) self-destruct *)

(* beneficiary <> contract: exact effect. Nothing is burnt according to the journal, and the
   total is kept unless the beneficiary's credit wraps, in which case exactly 2^256 wei vanish *)
Theorem C08_selfdestruct_to_other :
  forall d s a t s' hv te pd c us,
    WF d s -> NoDup us -> In a us -> In t us -> a <> t ->
    selfdestruct d s a t = Some (s', hv, te, pd, c) ->
    total d s' us = total d s us - (if pow256 <=? bal d s t + bal d s a then pow256 else 0) /\
    jburn (journal s') = jburn (journal s).
Proof. exact selfdestruct_other_total. Qed.

Theorem C08_selfdestruct_to_other_conserves :
  forall d s a t s' hv te pd c us,
    WF d s -> NoDup us -> In a us -> In t us -> a <> t ->
    bal d s t + bal d s a < pow256 ->
    selfdestruct d s a t = Some (s', hv, te, pd, c) ->
    total d s' us = total d s us /\ jburn (journal s') = jburn (journal s).
Proof.
  intros d s a t s' hv te pd c us W ND Ia It N O L.
  destruct (selfdestruct_other_total d s a t s' hv te pd c us W ND Ia It N L) as [A B].
  destruct (pow256 <=? bal d s t + bal d s a) eqn:E; [apply Z.leb_le in E|]; split; auto; lia.
Qed.

(* beneficiary = contract: the total drops by exactly the contract's balance when the account is
   deleted (created in this transaction, or before CANCUN) and the journal records that burn;
   otherwise (CANCUN, older contract) nothing happens to the balances *)
Theorem C08_selfdestruct_to_self :
  forall d s a s' hv te pd c us,
    WF d s -> NoDup us -> In a us ->
    selfdestruct d s a a = Some (s', hv, te, pd, c) ->
    total d s' us = total d s us - (if sd_deletes s a then bal d s a else 0) /\
    jburn (journal s') = jburn (journal s) + (if sd_deletes s a then bal d s a else 0).
Proof. exact selfdestruct_self_total. Qed.

Theorem C08_sd_deletes_definition :
  forall s a, sd_deletes s a =
    (match st s a with Some acc => a_created acc | None => false end) || negb (cancun s).
Proof. reflexivity. Qed.

(* F13 (recorded finding, class C08-F13-selfdestruct-credit-overflow): without the no-overflow
   hypothesis conservation is false. CANCUN, contract 1 holding 5 wei self-destructs to
   beneficiary 2 holding 2^256-3: the beneficiary ends with 2 wei, 2^256 wei are gone. *)
Definition f13_db : db :=
  mkDb (fun a => if a =? 1 then Some (5, 1, 1) else if a =? 2 then Some (pow256 - 3, 0, 0) else None)
       (fun _ _ => 0) (fun _ => None).
Definition f13_state : jstate := fst (load_account f13_db (jnew true true (fun _ => false)) 1).

Lemma f13_wf : WF f13_db f13_state.
Proof.
  apply WF_load. split; [split|split].
  - intros a acc H. discriminate.
  - intros a b n c. unfold f13_db. cbn [db_basic].
    destruct (a =? 1); [intros [= <- _ _]; unfold_pows; lia|].
    destruct (a =? 2); [intros [= <- _ _]; unfold_pows; lia|discriminate].
  - intros a acc H. discriminate.
  - cbn. congruence.
Qed.

Theorem C08_selfdestruct_credit_overflow_refuted :
  exists d s a t s' hv te pd c us,
    WF d s /\ hop_ok d s (HSelfdestruct a t) /\ NoDup us /\ In a us /\ In t us /\ a <> t /\
    selfdestruct d s a t = Some (s', hv, te, pd, c) /\
    bal d s a = 5 /\ bal d s t = pow256 - 3 /\ bal d s' a = 0 /\ bal d s' t = 2 /\
    total d s' us = total d s us - pow256 /\ jburn (journal s') = jburn (journal s).
Proof.
  exists f13_db, f13_state, 1, 2.
  destruct (selfdestruct f13_db f13_state 1 2) as [[[[[s' hv] te] pd] c]|] eqn:E; [|vm_compute in E; discriminate].
  exists s', hv, te, pd, c, [1; 2].
  split; [exact f13_wf|]. split; [exact I|].
  split; [repeat constructor; cbn; intuition discriminate|].
  split; [cbn; auto|]. split; [cbn; auto|]. split; [discriminate|]. split; [reflexivity|].
  assert (S : s' = fst (fst (fst (fst (match selfdestruct f13_db f13_state 1 2 with Some x => x | None => (s', hv, te, pd, c) end))))).
  { rewrite E. reflexivity. }
  rewrite S. vm_compute. repeat split; reflexivity.
Qed.

(* ---------------------------------------------------------------- (c) every history *)

(* one operation other than revert: total + burnt-according-to-the-journal is invariant *)
Theorem C08_operation_conserves :
  forall d us s cps o s' cps',
    WF d s -> hop_ok8 d s o -> NoDup us -> (forall a, In a (hop_addrs o) -> In a us) ->
    o <> HRevert -> run_hop d (s, cps) o = Some (s', cps') ->
    total d s' us + jburn (journal s') = total d s us + jburn (journal s).
Proof. exact phi_hop_plain. Qed.

(* every history of the 16 operation kinds (nested checkpoint / commit / revert in any order,
   failed transfers and creates, balances up to 2^256-1) from any well-formed state: the total
   afterwards = the total before minus the ether burnt by the self-destructs-to-self that the
   history did not revert. Nothing else creates or destroys ether. *)
Theorem C08_history_conserves :
  forall d us s h s' cps',
    WF d s -> NoDup us -> covers us h -> contract8 d (s, []) h ->
    run_hops d (s, []) h = Some (s', cps') ->
    total d s' us = total d s us - (jburn (journal s') - jburn (journal s)) /\ WF d s'.
Proof. exact history_conserves. Qed.

Theorem C08_contract_extends_C06 :
  forall d h sc, contract8 d sc h -> contract d sc h.
Proof. exact contract8_contract. Qed.

Theorem C08_burnt_definition :
  forall e, eburn e = match e with AccountDestroyed a t _ had => if a =? t then had else 0 | _ => 0 end.
Proof. reflexivity. Qed.

(* the same for trees of frames (Model/Frames.v, C07): calls with value, creates with
   endowment, their returns with commit or revert, and the host operations of the running frames.
   make_create_frame checks the creator's balance itself, so the hypotheses are the C06 contract of
   the events (econtract8's first component) and no overflowing self-destruct credit. *)
Theorem C08_frames_conserve :
  forall d us s es s' cps',
    WF d s -> NoDup us -> ecovers us es -> econtract8 d (s, []) es ->
    frun d (s, []) es = Some (s', cps') ->
    total d s' us = total d s us - (jburn (journal s') - jburn (journal s)) /\ WF d s'.
Proof. exact frames_conserve. Qed.

Theorem C08_econtract8_definition :
  forall d sc e r, econtract8 d sc (e :: r) =
    (contract d sc (hops_of_event d sc e) /\
     match e with
     | EHop (HSelfdestruct a t) => a <> t -> bal d (fst sc) t + bal d (fst sc) a < pow256
     | _ => True
     end /\
     match fstep d sc e with Some (sc', _) => econtract8 d sc' r | None => True end).
Proof. reflexivity. Qed.

(* ---------------------------------------------------------------- (d) whole transaction *)

(* deduct_caller; frames (a history h); reimburse_caller; reward_beneficiary (if enabled), with
   the amounts of the C09 settlement model under the bounds validation provides ([validated]) and
   a beneficiary credit that does not saturate:
     total after = total before - basefee * gas_used (LONDON onwards) - blob fee
                   - burnt - (tip * gas_used if rewards are disabled),
   tip = effective price - basefee from LONDON, effective price before. *)
Theorem C08_transaction_conserves :
  forall d us spec e initial floor f auth caller cb reward h s0 s1 s2 s3 s4 stl,
    WF d s0 -> NoDup us -> In caller us -> In cb us -> caller <> cb -> covers us h ->
    tx_stations d spec e floor f auth caller cb reward (exec_hist d h) s0 s1 s2 s3 s4 stl ->
    validated spec e initial floor f auth (bal d s0 caller) (bal d s2 caller - bal d s1 caller) (bal d s2 cb) ->
    bal d s2 cb + tip spec e * st_gas_used stl < pow256 ->
    total d s4 us =
      total d s0 us
      - (if enabled spec LONDON then b_basefee (e_block e) * st_gas_used stl else 0)
      - blob_fee spec e
      - (jburn (journal s2) - jburn (journal s0))
      - (if reward then 0 else tip spec e * st_gas_used stl).
Proof. exact tx_conserves. Qed.

(* the same with the execution given as a tree of frame events *)
Theorem C08_transaction_conserves_frames :
  forall d us spec e initial floor f auth caller cb reward es s0 s1 s2 s3 s4 stl,
    WF d s0 -> NoDup us -> In caller us -> In cb us -> caller <> cb -> ecovers us es ->
    tx_stations d spec e floor f auth caller cb reward (exec_frames d es) s0 s1 s2 s3 s4 stl ->
    validated spec e initial floor f auth (bal d s0 caller) (bal d s2 caller - bal d s1 caller) (bal d s2 cb) ->
    bal d s2 cb + tip spec e * st_gas_used stl < pow256 ->
    total d s4 us =
      total d s0 us
      - (if enabled spec LONDON then b_basefee (e_block e) * st_gas_used stl else 0)
      - blob_fee spec e
      - (jburn (journal s2) - jburn (journal s0))
      - (if reward then 0 else tip spec e * st_gas_used stl).
Proof. exact tx_conserves_frames. Qed.

Theorem C08_exec_definitions :
  forall d h es s1 s2,
    (exec_hist d h s1 s2 <-> contract8 d (s1, []) h /\ exists cps, run_hops d (s1, []) h = Some (s2, cps)) /\
    (exec_frames d es s1 s2 <-> econtract8 d (s1, []) es /\ exists cps, frun d (s1, []) es = Some (s2, cps)).
Proof. intros. split; reflexivity. Qed.

(* ---------------------------------------------------------------- non-vacuity *)
(* pre-CANCUN: account 2 (7 wei) self-destructs to itself inside a checkpoint that is reverted
   (burn undone), then again outside (7 wei burnt); transfers that succeed, run out of funds and
   overflow; a create with endowment *)
Definition ex8_db : db :=
  mkDb (fun a => if a =? 1 then Some (pow256 - 1, 5, 0) else if a =? 2 then Some (7, 0, 0)
                 else if a =? 4 then Some (100, 1, 0) else None)
       (fun _ _ => 0) (fun _ => None).
Definition ex8_hist : list hop :=
  [HLoad 1; HLoad 2; HLoad 4; HLoad 5; HTransfer 4 2 5; HTransfer 2 1 3; HTransfer 2 4 1000;
   HCheckpoint; HSelfdestruct 2 2; HRevert; HCreate 4 5 false 10; HSstore 5 0 4; HCommit;
   HSelfdestruct 2 2; HSelfdestruct 4 5].
Definition ex8_s0 : jstate := jnew true false (fun _ => false).

Example C08_hypotheses_satisfiable :
  WF ex8_db ex8_s0 /\ NoDup [1; 2; 4; 5] /\ covers [1; 2; 4; 5] ex8_hist /\
  contract8 ex8_db (ex8_s0, []) ex8_hist /\
  exists s' cps, run_hops ex8_db (ex8_s0, []) ex8_hist = Some (s', cps) /\
    total ex8_db ex8_s0 [1; 2; 4; 5] = pow256 - 1 + 7 + 100 /\
    total ex8_db s' [1; 2; 4; 5] = pow256 - 1 + 7 + 100 - 12 /\
    jburn (journal s') - jburn (journal ex8_s0) = 12.
Proof.
  split; [|split; [|split; [|split]]].
  - split; [split|split].
    + intros a acc H. discriminate.
    + intros a b n c. unfold ex8_db. cbn [db_basic].
      destruct (a =? 1); [intros [= <- _ _]; unfold_pows; lia|].
      destruct (a =? 2); [intros [= <- _ _]; unfold_pows; lia|].
      destruct (a =? 4); [intros [= <- _ _]; unfold_pows; lia|discriminate].
    + intros a acc H. discriminate.
    + cbn. congruence.
  - repeat constructor; cbn; intuition discriminate.
  - intros a. cbn. intuition.
  - vm_compute. repeat split; try (intros H; discriminate H); try reflexivity; try (intros; reflexivity).
    all: try (intros acc H C; injection H as <-; discriminate C).
  - destruct (run_hops ex8_db (ex8_s0, []) ex8_hist) as [[s' cps]|] eqn:E; [|vm_compute in E; discriminate].
    exists s', cps. split; [reflexivity|].
    assert (S : s' = fst (match run_hops ex8_db (ex8_s0, []) ex8_hist with Some x => x | None => (s', cps) end)).
    { rewrite E. reflexivity. }
    rewrite S. vm_compute. repeat split; reflexivity.
Qed.

(* a LONDON transaction: the sender (1) pays 3 wei to contract 2, which self-destructs to itself
   (10 wei burnt); 50400 gas used at effective price 9, base fee 7, tip 2; rewards on and off *)
Definition ex8t_env : env :=
  mkEnv (mainnet_cfg 1) (mkBlock 30000000 7 true (Some 1))
        (mkTx 100000 20 false 0 [] (Some 0) (Some 1) [] (Some 2) [] None None).
Definition ex8t_db : db :=
  mkDb (fun a => if a =? 1 then Some (10 ^ 18, 0, 0) else if a =? 2 then Some (7, 1, 1)
                 else if a =? 9 then Some (5, 0, 0) else None)
       (fun _ _ => 0) (fun _ => None).
Definition ex8t_s0 : jstate := fst (load_account ex8t_db (jnew true false (fun _ => false)) 1).
Definition ex8t_facc1 : account :=
  mkAcc (10 ^ 18 - 100000 * 9) 1 0 false false true false false (fun _ => None).
Definition ex8t_s1 : jstate := put ex8t_s0 1 ex8t_facc1.
Definition ex8t_h : list hop := [HLoad 2; HTransfer 1 2 3; HSelfdestruct 2 2].
Definition ex8t_s2 : jstate :=
  match run_hops ex8t_db (ex8t_s1, []) ex8t_h with Some (x, _) => x | None => ex8t_s1 end.
Definition ex8t_stl : settlement :=
  mkSettle (mkGas 100000 40000 9600) 50400 9600 (10 ^ 18 - 3 - 9 * 50400) (5 + 2 * 50400).
Definition acc_or (o : option account) : account := match o with Some a => a | None => ex8t_facc1 end.
Definition ex8t_s3 : jstate := put ex8t_s2 1 (acc_bal (acc_or (st ex8t_s2 1)) (st_caller ex8t_stl)).
Definition ex8t_s4 : jstate :=
  put (fst (load_account ex8t_db ex8t_s3 9)) 9
      (acc_bal (acc_touched (acc_or (st (fst (load_account ex8t_db ex8t_s3 9)) 9)) true) (st_coinbase ex8t_stl)).

Lemma ex8t_wf : WF ex8t_db ex8t_s0.
Proof.
  apply WF_load. split; [split|split].
  - intros a acc H. discriminate.
  - intros a b n c. unfold ex8t_db. cbn [db_basic].
    destruct (a =? 1); [intros [= <- _ _]; unfold_pows; lia|].
    destruct (a =? 2); [intros [= <- _ _]; unfold_pows; lia|].
    destruct (a =? 9); [intros [= <- _ _]; unfold_pows; lia|discriminate].
  - intros a acc H. discriminate.
  - cbn. congruence.
Qed.

Example C08_transaction_hypotheses_satisfiable :
  forall reward : bool,
    let s4 := if reward then ex8t_s4 else ex8t_s3 in
    WF ex8t_db ex8t_s0 /\ NoDup [1; 2; 9] /\ covers [1; 2; 9] ex8t_h /\
    tx_stations ex8t_db LONDON ex8t_env 0 (mkFrame FOk 40000 9600) 0 1 9 reward (exec_hist ex8t_db ex8t_h)
                ex8t_s0 ex8t_s1 ex8t_s2 ex8t_s3 s4 ex8t_stl /\
    validated LONDON ex8t_env 21000 0 (mkFrame FOk 40000 9600) 0
              (bal ex8t_db ex8t_s0 1) (bal ex8t_db ex8t_s2 1 - bal ex8t_db ex8t_s1 1) (bal ex8t_db ex8t_s2 9) /\
    bal ex8t_db ex8t_s2 9 + tip LONDON ex8t_env * st_gas_used ex8t_stl < pow256 /\
    total ex8t_db ex8t_s0 [1; 2; 9] = 10 ^ 18 + 7 + 5 /\
    total ex8t_db s4 [1; 2; 9] = 10 ^ 18 + 7 + 5 - 7 * 50400 - 10 - (if reward then 0 else 2 * 50400).
Proof.
  intros reward s4.
  split; [exact ex8t_wf|]. split; [repeat constructor; cbn; intuition discriminate|].
  split; [intros a; cbn; intuition|].
  split.
  { constructor.
    - eexists. exists ex8t_facc1. eexists. split; [vm_compute; reflexivity|].
      split; [vm_compute; reflexivity|]. split; [vm_compute; reflexivity|]. split; [discriminate|reflexivity].
    - split.
      + vm_compute. repeat split; try (intros H; discriminate H); try reflexivity; try (intros; reflexivity).
      + unfold ex8t_s2. destruct (run_hops ex8t_db (ex8t_s1, []) ex8t_h) as [[x c]|] eqn:E; [eexists; reflexivity|].
        vm_compute in E. discriminate E.
    - vm_compute. reflexivity.
    - unfold ex8t_s3. destruct (st ex8t_s2 1) as [a|] eqn:E; [exists a; split; reflexivity|].
      vm_compute in E. discriminate E.
    - unfold s4. destruct reward; [|reflexivity]. unfold ex8t_s4.
      destruct (st (fst (load_account ex8t_db ex8t_s3 9)) 9) as [a|] eqn:E; [exists a; split; reflexivity|].
      vm_compute in E. discriminate E. }
  split; [constructor; try (vm_compute; intuition discriminate)|].
  split; [vm_compute; reflexivity|].
  split; [vm_compute; reflexivity|].
  unfold s4. destruct reward; vm_compute; reflexivity.
Qed.

(* ================================================================ (e) composition with the interpreter *)
(* Up to here the execution was an arbitrary history / frame-event tree satisfying the contract.
   Model/Step.v + Model/Evm.v are the reference interpreter of C01 (tied to the Rust code by the
   C01 correspondence run); Proofs/EvmHistoryProofs.v shows that a frame run by the create-free
   interpreter [exec_nc] (CREATE / CREATE2 answered by a marker; whatever it computes, [exec]
   computes: C01_create_free_interpreter_agrees) is a well-bracketed history of operations that
   are inside the C06 contract by their shape.  Here: that history is inside the C08 contract,
   for every program, input, hardfork and state, provided the frame starts from a well-formed
   state under the supply bound

       SB d s := every duplicate-free list of addresses has total balance < 2^256.

   SB replaces the per-self-destruct hypothesis "the beneficiary does not overflow" (F13) of
   hop_ok8 / econtract8: it is a hypothesis on the start state only, and it is an invariant
   (the theorems give it back for the end state). *)
Import Step Evm EvmHistoryProofs EvmEtherProofs.

Theorem C08_supply_bound_definition :
  forall d s, SB d s <-> (forall us, NoDup us -> total d s us < pow256).
Proof. intros. split; intros H; exact H. Qed.

(* finitely many funded accounts with a sum below 2^256 *)
Theorem C08_supply_bound_of_finite_support :
  forall d s L, (forall a, 0 <= bal d s a) -> (forall a, ~ In a L -> bal d s a = 0) ->
    total d s L < pow256 -> SB d s.
Proof. exact SB_support. Qed.

(* the supply bound is what makes the C08 contract of a non-create operation hold *)
Theorem C08_supply_bound_gives_contract :
  forall d s o, okhop o -> WF d s -> SB d s -> hop_ok8 d s o.
Proof. exact okhop_ok8. Qed.

(* a frame: the interpreter's effect on the journaled state is an execution inside the C08
   contract (exec_hist, the hypothesis of C08_transaction_conserves), which closes the checkpoints
   it opens; well-formedness and the supply bound hold again at the end *)
Theorem C08_interpreter_frame_in_contract :
  forall W f G F I G' r,
    let d := gdb W G in
    WF d (gs G) -> SB d (gs G) -> exec_nc f W G F I = XDone (G', r) ->
    (exists h, exec_hist d h (gs G) (gs G') /\ run_hops d (gs G, []) h = Some (gs G', [])) /\
    snd (g_sc G') = snd (g_sc G) /\ gdb W G' = d /\ WF d (gs G') /\ SB d (gs G').
Proof.
  intros W f G F I G' r d Wf B E. apply conserves_in_contract.
  exact (frame_conserves W f G F I G' r Wf B E).
Qed.

(* hence it conserves ether: over every universe outside of which no balance has changed, the
   total afterwards is the total before minus what the frame's self-destructs-to-self burnt
   (and did not revert) *)
Theorem C08_interpreter_frame_conserves :
  forall W f G F I G' r us,
    let d := gdb W G in
    WF d (gs G) -> SB d (gs G) -> exec_nc f W G F I = XDone (G', r) ->
    NoDup us -> (forall a, ~ In a us -> bal d (gs G') a = bal d (gs G) a) ->
    total d (gs G') us = total d (gs G) us - (jburn (journal (gs G')) - jburn (journal (gs G))).
Proof.
  intros W f G F I G' r us d Wf B E. apply conserves_total; [exact Wf|].
  exact (frame_conserves W f G F I G' r Wf B E).
Qed.

(* such universes exist: a frame changes finitely many balances *)
Theorem C08_interpreter_frame_footprint :
  forall W f G F I G' r,
    let d := gdb W G in
    WF d (gs G) -> SB d (gs G) -> exec_nc f W G F I = XDone (G', r) ->
    exists L, NoDup L /\ forall a, ~ In a L -> bal d (gs G') a = bal d (gs G) a.
Proof.
  intros W f G F I G' r d Wf B E. apply conserves_footprint; [exact Wf|].
  exact (frame_conserves W f G F I G' r Wf B E).
Qed.

(* the natural universe: every account that is loaded when the frame ends (accounts are never
   unloaded, and an account that was never loaded shows the balance of the database) *)
Theorem C08_interpreter_frame_conserves_loaded :
  forall W f G F I G' r us,
    let d := gdb W G in
    WF d (gs G) -> SB d (gs G) -> exec_nc f W G F I = XDone (G', r) ->
    NoDup us -> (forall a, Host.st (gs G') a <> None -> In a us) ->
    total d (gs G') us = total d (gs G) us - (jburn (journal (gs G')) - jburn (journal (gs G))).
Proof.
  intros W f G F I G' r us d Wf B E. apply conserves_total_loaded; [exact Wf|].
  exact (frame_conserves W f G F I G' r Wf B E).
Qed.

(* partial: the interpreter [exec] itself, on the runs on which no CREATE / CREATE2 is reached
   (the create-free interpreter completes; then both compute the same). Missing for runs with
   creates: the create branch of the C01 history theorem; histories that do not depend on the
   growing code table (db_delegate of Model/Step.v's database changes when code is deployed); and
   the C06 contract of create_account_checkpoint / set_code (created address <> creator, not an
   account created earlier in the transaction with nonce 0 and no code, code set once), which
   rests on collision-freedom of the keccak address derivation. Those runs are covered by
   C08_frames_conserve with the contract as hypothesis. *)
Theorem C08_interpreter_exec_conserves_partial :
  forall W f G F I G' r us,
    let d := gdb W G in
    WF d (gs G) -> SB d (gs G) -> exec f W G F I = XDone (G', r) ->
    (exists x, exec_nc f W G F I = XDone x) ->
    NoDup us -> (forall a, Host.st (gs G') a <> None -> In a us) ->
    total d (gs G') us = total d (gs G) us - (jburn (journal (gs G')) - jburn (journal (gs G))) /\
    WF d (gs G') /\ SB d (gs G').
Proof. exact exec_conserves_partial. Qed.

(* the same for a complete call: make_call_frame (value transfer, precompile, depth / funds
   failures), the callee's frames, call_return with commit or revert *)
Theorem C08_interpreter_call_in_contract :
  forall W f G c G' r,
    let d := gdb W G in
    WF d (gs G) -> SB d (gs G) -> (cq_transfers c = true -> 0 <= cq_value c) ->
    do_call W (exec_nc f W) G c = XDone (G', r) ->
    (exists h, exec_hist d h (gs G) (gs G') /\ run_hops d (gs G, []) h = Some (gs G', [])) /\
    snd (g_sc G') = snd (g_sc G) /\ gdb W G' = d /\ WF d (gs G') /\ SB d (gs G').
Proof.
  intros W f G c G' r d Wf B V E. apply conserves_in_contract.
  exact (call_conserves W f G c G' r Wf B V E).
Qed.

Theorem C08_interpreter_call_conserves :
  forall W f G c G' r us,
    let d := gdb W G in
    WF d (gs G) -> SB d (gs G) -> (cq_transfers c = true -> 0 <= cq_value c) ->
    do_call W (exec_nc f W) G c = XDone (G', r) ->
    NoDup us -> (forall a, ~ In a us -> bal d (gs G') a = bal d (gs G) a) ->
    total d (gs G') us = total d (gs G) us - (jburn (journal (gs G')) - jburn (journal (gs G))).
Proof.
  intros W f G c G' r us d Wf B V E. apply conserves_total; [exact Wf|].
  exact (call_conserves W f G c G' r Wf B V E).
Qed.

Theorem C08_interpreter_call_footprint :
  forall W f G c G' r,
    let d := gdb W G in
    WF d (gs G) -> SB d (gs G) -> (cq_transfers c = true -> 0 <= cq_value c) ->
    do_call W (exec_nc f W) G c = XDone (G', r) ->
    exists L, NoDup L /\ forall a, ~ In a L -> bal d (gs G') a = bal d (gs G) a.
Proof.
  intros W f G c G' r d Wf B V E. apply conserves_footprint; [exact Wf|].
  exact (call_conserves W f G c G' r Wf B V E).
Qed.

Theorem C08_interpreter_call_conserves_loaded :
  forall W f G c G' r us,
    let d := gdb W G in
    WF d (gs G) -> SB d (gs G) -> (cq_transfers c = true -> 0 <= cq_value c) ->
    do_call W (exec_nc f W) G c = XDone (G', r) ->
    NoDup us -> (forall a, Host.st (gs G') a <> None -> In a us) ->
    total d (gs G') us = total d (gs G) us - (jburn (journal (gs G')) - jburn (journal (gs G))).
Proof.
  intros W f G c G' r us d Wf B V E. apply conserves_total_loaded; [exact Wf|].
  exact (call_conserves W f G c G' r Wf B V E).
Qed.

(* non-vacuity: a SHANGHAI world. The sender calls 0x2000 with 5 wei; its code calls 0x3000 with
   2 wei, which self-destructs to itself (7 + 2 wei burnt: the account is deleted before CANCUN),
   then self-destructs to 0x4000 (103 wei move). *)
Definition ex9_code2 : list Z :=
  [0x60;0;0x60;0;0x60;0;0x60;0;0x60;2;0x61;0x30;0x00;0x5a;0xf1;0x50;   (* call(gas, 0x3000, 2, 0,0,0,0); pop *)
   0x61;0x40;0x00;0xff].                                              (* selfdestruct(0x4000) *)
Definition ex9_code3 : list Z := [0x30;0xff].                          (* selfdestruct(address) *)
Definition ex9_world : world :=
  mkW 16 (E.mkEnv (E.mainnet_cfg 1) (E.mkBlock (2^256-1) 7 true (Some 1))
                  (E.mkTx 200000 9 false 5 [] (Some 7) None [] None [] None None))
      0xCA11E4 (Some 0x2000) 5 [] [] [] [] 0xC01BBA5E 100 1700000000 0 0x1234
      [(0x2000, (100, 1, 78)); (0x3000, (7, 1, 79)); (0xCA11E4, (10^30, 7, 0))] []
      [(78, ex9_code2); (79, ex9_code3)] [].
Definition ex9_call : callreq := mkCall SchCall 100000 0x2000 0xCA11E4 0x2000 5 true false [] 0 0.
Definition ex9_us : list Z := [0xCA11E4; 0x2000; 0x3000; 0x4000].

Lemma ex9_wf : WF (gdb ex9_world (gstate_new ex9_world)) (gs (gstate_new ex9_world)).
Proof.
  split; [split|split].
  - intros a acc H. discriminate.
  - intros a b n c. cbn [gdb the_db Host.db_basic]. unfold ex9_world. cbn [w_accounts acc_lookup].
    destruct (0x2000 =? a); [intros [= <- _ _]; unfold_pows; lia|].
    destruct (0x3000 =? a); [intros [= <- _ _]; unfold_pows; lia|].
    destruct (0xCA11E4 =? a); [intros [= <- _ _]; unfold_pows; lia|discriminate].
  - intros a acc H. discriminate.
  - cbn. congruence.
Qed.

Lemma ex9_sb : SB (gdb ex9_world (gstate_new ex9_world)) (gs (gstate_new ex9_world)).
Proof.
  apply (SB_support _ _ [0x2000; 0x3000; 0xCA11E4]).
  - apply bal_nonneg. exact ex9_wf.
  - intros a Ha. unfold bal, gs, gstate_new. cbn [g_sc fst Host.st Host.jnew].
    unfold account_from_db, gdb, the_db. cbn [Host.db_basic]. unfold ex9_world. cbn [w_accounts acc_lookup].
    destruct (0x2000 =? a) eqn:E1; [apply Z.eqb_eq in E1; exfalso; apply Ha; cbn; auto|].
    destruct (0x3000 =? a) eqn:E2; [apply Z.eqb_eq in E2; exfalso; apply Ha; cbn; auto|].
    destruct (0xCA11E4 =? a) eqn:E3; [apply Z.eqb_eq in E3; exfalso; apply Ha; cbn; auto|].
    reflexivity.
  - vm_compute. reflexivity.
Qed.

Example C08_interpreter_hypotheses_satisfiable :
  let W := ex9_world in let G := gstate_new W in let d := gdb W G in
  WF d (gs G) /\ SB d (gs G) /\ (cq_transfers ex9_call = true -> 0 <= cq_value ex9_call) /\
  match do_call W (exec_nc 40 W) G ex9_call with
  | XDone (G', r) =>
      ir_res r = R_SelfDestruct /\
      total d (gs G) ex9_us = 10 ^ 30 + 100 + 7 /\
      total d (gs G') ex9_us = 10 ^ 30 + 100 + 7 - 9 /\
      jburn (journal (gs G')) - jburn (journal (gs G)) = 9
  | _ => False
  end.
Proof.
  intros W G d. split; [exact ex9_wf|]. split; [exact ex9_sb|]. split; [intros _; vm_compute; discriminate|].
  vm_compute. repeat split; reflexivity.
Qed.

(* the universe hypothesis on a concrete final state: every address outside the list is not
   loaded (the state is a closure; decided by walking the bits of the address) *)
Ltac loaded_in_universe :=
  let a := fresh "a" in let H := fresh "H" in let NI := fresh "NI" in let p := fresh "p" in
  intros a H;
  match goal with |- In a ?L => destruct (in_dec Z.eq_dec a L) as [?|NI]; [assumption|exfalso; apply H; clear H] end;
  vm_compute; destruct a as [|p|p]; try reflexivity;
  repeat (destruct p as [p|p|]; try reflexivity; try solve [exfalso; apply NI; cbn; auto 10]).

Definition ex9_cG : gstate :=
  match do_call ex9_world (exec_nc 40 ex9_world) (gstate_new ex9_world) ex9_call with
  | XDone (G', _) => G' | _ => gstate_new ex9_world end.

Example C08_interpreter_call_universe_satisfiable :
  NoDup ex9_us /\ forall a, Host.st (gs ex9_cG) a <> None -> In a ex9_us.
Proof.
  split; [repeat constructor; cbn; intuition discriminate|]. loaded_in_universe.
Qed.

(* ---------------------------------------------------------------- (f) the interpreter's transaction *)
(* run_tx (Model/Evm.v: load_access_list, deduct_caller, apply_eip7702_auth_list, the first
   frame, last_frame_return, refund, the EIP-7623 floor, reimburse_caller, reward_beneficiary) for
   a call transaction whose execution issues no CREATE / CREATE2 — expressed by: the create-free
   interpreter completes the first frame (then run_tx's own interpreter computes the same).
   The journaled state passes through the stations of C08_transaction_conserves with that
   execution in the middle, so, for every universe us that contains the sender and the
   beneficiary and outside of which no balance has changed,

     total after = total before - basefee * gas_used (LONDON onwards) - blob fee - burnt,

   burnt = jburn of the final journal (the transaction starts with an empty journal); run_tx
   always rewards the beneficiary.  [validated] is the situation validation (C02) and the gas
   accounting (C13) provide, as in C08_transaction_conserves; d is the database of the world,
   s00 the empty journaled state the transaction starts from. *)
Theorem C08_interpreter_transaction_definitions :
  forall W to G1 G2 ra r,
    (tx_pre W G1 G2 ra <->
       Evm.deduct_caller W (load_access_list W (gstate_new W)) = Some G1 /\
       (if en (w_spec W) E.PRAGUE then apply_auths W G1 (w_auth_list W) 0 else (G1, 0)) = (G2, ra)) /\
    tx_call W to = mkCall SchCall (E.tx_gas_limit (E.e_tx (w_env W)) - fst (E.initial_and_floor (w_spec W) (w_env W)))
                          to (w_caller W) to (w_value W) true false (w_data W) 0 0 /\
    tx_frame r = mkFrame (Evm.frame_class (ir_res r)) (Gas.remaining (ir_gas r)) (Gas.refunded (ir_gas r)) /\
    auth_refund ra = ra * (G.PER_EMPTY_ACCOUNT_COST - G.PER_AUTH_BASE_COST).
Proof. intros. split; [split; intros H; exact H|]. repeat split. Qed.

Theorem C08_interpreter_transaction_conserves :
  forall fuel W to G1 G2 ra G3 r res us,
    let d := gdb W (gstate_new W) in
    let s00 := gs (gstate_new W) in
    let spec := w_spec W in let e := w_env W in
    let caller := w_caller W in let cb := w_coinbase W in
    let initial := fst (E.initial_and_floor spec e) in
    let floor := snd (E.initial_and_floor spec e) in
    w_to W = Some to -> tx_pre W G1 G2 ra ->
    do_call W (exec_nc fuel W) G2 (tx_call W to) = XDone (G3, r) ->
    run_tx fuel W = XDone res ->
    WF d s00 -> SB d s00 -> 0 <= w_value W ->
    NoDup us -> In caller us -> In cb us -> caller <> cb ->
    (forall a, ~ In a us -> bal d (tr_state res) a = bal d s00 a) ->
    validated spec e initial floor (tx_frame r) (auth_refund ra)
              (bal d s00 caller) (bal d (gs G3) caller - bal d (gs G1) caller) (bal d (gs G3) cb) ->
    bal d (gs G3) cb + tip spec e * tr_gas_used res < pow256 ->
    total d (tr_state res) us =
      total d s00 us
      - (if enabled spec LONDON then b_basefee (e_block e) * tr_gas_used res else 0)
      - blob_fee spec e
      - jburn (journal (tr_state res)).
Proof. exact run_tx_conserves. Qed.

(* the natural universe: every account of the final journaled state (what the commit writes to
   the database); the sender and the beneficiary are among them *)
Theorem C08_interpreter_transaction_conserves_loaded :
  forall fuel W to G1 G2 ra G3 r res us,
    let d := gdb W (gstate_new W) in
    let s00 := gs (gstate_new W) in
    let spec := w_spec W in let e := w_env W in
    let caller := w_caller W in let cb := w_coinbase W in
    let initial := fst (E.initial_and_floor spec e) in
    let floor := snd (E.initial_and_floor spec e) in
    w_to W = Some to -> tx_pre W G1 G2 ra ->
    do_call W (exec_nc fuel W) G2 (tx_call W to) = XDone (G3, r) ->
    run_tx fuel W = XDone res ->
    WF d s00 -> SB d s00 -> 0 <= w_value W ->
    NoDup us -> (forall a, Host.st (tr_state res) a <> None -> In a us) -> caller <> cb ->
    validated spec e initial floor (tx_frame r) (auth_refund ra)
              (bal d s00 caller) (bal d (gs G3) caller - bal d (gs G1) caller) (bal d (gs G3) cb) ->
    bal d (gs G3) cb + tip spec e * tr_gas_used res < pow256 ->
    total d (tr_state res) us =
      total d s00 us
      - (if enabled spec LONDON then b_basefee (e_block e) * tr_gas_used res else 0)
      - blob_fee spec e
      - jburn (journal (tr_state res)).
Proof. exact run_tx_conserves_loaded. Qed.

(* universes as the theorem asks for exist: a transaction changes finitely many balances *)
Theorem C08_interpreter_transaction_footprint :
  forall fuel W to G1 G2 ra G3 r res,
    let d := gdb W (gstate_new W) in
    let s00 := gs (gstate_new W) in
    w_to W = Some to -> tx_pre W G1 G2 ra ->
    do_call W (exec_nc fuel W) G2 (tx_call W to) = XDone (G3, r) ->
    run_tx fuel W = XDone res ->
    WF d s00 -> SB d s00 -> 0 <= w_value W ->
    exists us, NoDup us /\ In (w_caller W) us /\ In (w_coinbase W) us /\
               forall a, ~ In a us -> bal d (tr_state res) a = bal d s00 a.
Proof. exact run_tx_footprint. Qed.

(* non-vacuity: the transaction of ex9_world (base fee 7, gas price 9, 67927 gas used) *)
Definition ex9_G1 : gstate :=
  match Evm.deduct_caller ex9_world (load_access_list ex9_world (gstate_new ex9_world)) with
  | Some g => g | None => gstate_new ex9_world end.
Definition ex9_G3r : gstate * iresult :=
  match do_call ex9_world (exec_nc 60 ex9_world) ex9_G1 (tx_call ex9_world 0x2000) with
  | XDone x => x | _ => (ex9_G1, mkIR 0 [] (Gas.gas_new 0)) end.
Definition ex9_res : tx_result :=
  match run_tx 60 ex9_world with
  | XDone x => x | _ => mkTR 0 0 0 0 [] None [] (gs (gstate_new ex9_world)) [] end.
Definition ex9_tus : list Z := [0xC01BBA5E; 0xCA11E4; 0x2000; 0x3000; 0x4000].

Example C08_interpreter_transaction_hypotheses_satisfiable :
  let W := ex9_world in
  let d := gdb W (gstate_new W) in let s00 := gs (gstate_new W) in
  let G3 := fst ex9_G3r in let r := snd ex9_G3r in
  w_to W = Some 0x2000 /\ tx_pre W ex9_G1 ex9_G1 0 /\
  do_call W (exec_nc 60 W) ex9_G1 (tx_call W 0x2000) = XDone (G3, r) /\
  run_tx 60 W = XDone ex9_res /\
  WF d s00 /\ SB d s00 /\ 0 <= w_value W /\
  NoDup ex9_tus /\ In (w_caller W) ex9_tus /\ In (w_coinbase W) ex9_tus /\ w_caller W <> w_coinbase W /\
  (forall a, Host.st (tr_state ex9_res) a <> None -> In a ex9_tus) /\
  validated (w_spec W) (w_env W) (fst (E.initial_and_floor (w_spec W) (w_env W)))
            (snd (E.initial_and_floor (w_spec W) (w_env W))) (tx_frame r) (auth_refund 0)
            (bal d s00 (w_caller W)) (bal d (gs G3) (w_caller W) - bal d (gs ex9_G1) (w_caller W))
            (bal d (gs G3) (w_coinbase W)) /\
  bal d (gs G3) (w_coinbase W) + tip (w_spec W) (w_env W) * tr_gas_used ex9_res < pow256 /\
  tr_gas_used ex9_res = 67927 /\
  total d s00 ex9_tus = 10 ^ 30 + 100 + 7 /\
  total d (tr_state ex9_res) ex9_tus = 10 ^ 30 + 100 + 7 - 7 * 67927 - 0 - 9 /\
  jburn (journal (tr_state ex9_res)) = 9.
Proof.
  intros W d s00 G3 r. subst W.
  split; [reflexivity|]. split.
  { split; [|reflexivity]. unfold ex9_G1.
    destruct (Evm.deduct_caller ex9_world (load_access_list ex9_world (gstate_new ex9_world))) eqn:E; [reflexivity|].
    vm_compute in E. discriminate E. }
  split.
  { unfold G3, r, ex9_G3r.
    destruct (do_call ex9_world (exec_nc 60 ex9_world) ex9_G1 (tx_call ex9_world 0x2000)) as [[x y]| |k] eqn:E;
      [reflexivity|vm_compute in E; discriminate E|vm_compute in E; discriminate E]. }
  split.
  { unfold ex9_res. destruct (run_tx 60 ex9_world) as [x| |k] eqn:E;
      [reflexivity|vm_compute in E; discriminate E|vm_compute in E; discriminate E]. }
  split; [exact ex9_wf|]. split; [exact ex9_sb|]. split; [vm_compute; discriminate|].
  split; [repeat constructor; cbn; intuition discriminate|].
  split; [cbn; auto|]. split; [cbn; auto|]. split; [discriminate|].
  split; [loaded_in_universe|].
  split; [constructor; vm_compute; intuition discriminate|].
  split; [vm_compute; reflexivity|].
  vm_compute. repeat split; reflexivity.
Qed.

(* why the supply bound is a hypothesis (finding F13 seen through the interpreter): CANCUN,
   0x2000 holds 5 wei and runs SELFDESTRUCT(0x4000), 0x4000 holds 2^256-3: the state is
   well-formed, the call completes, 0x4000 ends with 2 wei, nothing is recorded as burnt, and the
   total over the three accounts involved has dropped by exactly 2^256 *)
Definition ex10_world : world :=
  mkW 17 (E.mkEnv (E.mainnet_cfg 1) (E.mkBlock (2^256-1) 0 true (Some 1))
                  (E.mkTx 200000 1 false 0 [] (Some 7) None [] None [] None None))
      0xCA11E4 (Some 0x2000) 0 [] [] [] [] 0xC01BBA5E 100 1700000000 0 0x1234
      [(0x2000, (5, 1, 78)); (0x4000, (2^256 - 3, 0, 0)); (0xCA11E4, (10^30, 7, 0))] []
      [(78, [0x61;0x40;0x00;0xff])] [].
Definition ex10_call : callreq := mkCall SchCall 100000 0x2000 0xCA11E4 0x2000 0 true false [] 0 0.

Example C08_interpreter_credit_overflow_witness :
  let W := ex10_world in let G := gstate_new W in let d := gdb W G in
  let us := [0xCA11E4; 0x2000; 0x4000] in
  WF d (gs G) /\ ~ SB d (gs G) /\
  match do_call W (exec_nc 40 W) G ex10_call with
  | XDone (G', r) =>
      ir_res r = R_SelfDestruct /\
      bal d (gs G) 0x2000 = 5 /\ bal d (gs G) 0x4000 = pow256 - 3 /\
      bal d (gs G') 0x2000 = 0 /\ bal d (gs G') 0x4000 = 2 /\
      total d (gs G') us = total d (gs G) us - pow256 /\
      jburn (journal (gs G')) = jburn (journal (gs G))
  | _ => False
  end.
Proof.
  intros W G d us. subst d G W. split; [|split].
  - split; [split|split].
    + intros a acc H. discriminate.
    + intros a b n c. cbn [gdb the_db Host.db_basic]. unfold ex10_world. cbn [w_accounts acc_lookup].
      destruct (0x2000 =? a); [intros [= <- _ _]; unfold_pows; lia|].
      destruct (0x4000 =? a); [intros [= <- _ _]; unfold_pows; lia|].
      destruct (0xCA11E4 =? a); [intros [= <- _ _]; unfold_pows; lia|discriminate].
    + intros a acc H. discriminate.
    + cbn. congruence.
  - intros B. assert (N : NoDup us) by (repeat constructor; cbn; intuition discriminate).
    specialize (B us N). vm_compute in B. discriminate B.
  - vm_compute. repeat split; reflexivity.
Qed.

(* the theorem applied to the example: all its hypotheses hold together *)
Example C08_interpreter_transaction_example :
  let W := ex9_world in let d := gdb W (gstate_new W) in
  total d (tr_state ex9_res) ex9_tus =
    total d (gs (gstate_new W)) ex9_tus
    - (if enabled (w_spec W) LONDON then b_basefee (e_block (w_env W)) * tr_gas_used ex9_res else 0)
    - blob_fee (w_spec W) (w_env W) - jburn (journal (tr_state ex9_res)).
Proof.
  intros W d.
  destruct C08_interpreter_transaction_hypotheses_satisfiable
    as (Hto & HP & HC & HR & Wf & B & Hv & ND & _ & _ & Ncb & Ld & V & NS & _).
  exact (C08_interpreter_transaction_conserves_loaded 60 ex9_world 0x2000 ex9_G1 ex9_G1 0 (fst ex9_G3r) (snd ex9_G3r)
           ex9_res ex9_tus Hto HP HC HR Wf B Hv ND Ld Ncb V NS).
Qed.
