(* C08 — ether is conserved by every transaction.
   Statements only; proofs in Proofs/EtherProofs.v, EtherOps.v, EtherHist.v, EtherFrames.v, EtherTx.v.
   Model: Model/Host.v (JournaledState: transfer, create_account_checkpoint, selfdestruct,
   checkpoints), Model/Ether.v (observed balance, total over a finite universe, burnt ether
   according to the journal), Model/Settlement.v (fee settlement of C09).

   [total d s us] sums the observed balance (the loaded account's, else the database's) over a
   duplicate-free address list us that contains every address the operations name (covers).
   [jburn (journal s)] is the ether burnt according to the journal: the had_balance of every
   AccountDestroyed entry whose target is the destroyed account itself. A reverted checkpoint
   takes its entries with it, so the burnt amount of a history is exactly
   jburn (journal after) - jburn (journal before).

   Contract (hop_ok8): the C06 contract, the creator holds the endowment (create_inner checks it
   before create_account_checkpoint, whose `-=` would wrap otherwise), and the beneficiary of a
   self-destruct does not overflow. The last hypothesis is the recorded finding F13: where it
   fails the code wraps and exactly 2^256 wei vanish (C08_selfdestruct_to_other, _refuted below).
   The repaired F1 (transfer whose credit overflows) is inside C08_transfer_conserves. *)
From RevmV Require Import Base.Word Model.Gas Model.Envelope Model.Settlement Proofs.SettlementProofs.
From RevmV Require Import Model.Host Model.Ether Model.Frames Proofs.HostView Proofs.HostOps Proofs.HostMain
  Proofs.FramesProofs Proofs.EtherProofs Proofs.EtherOps Proofs.EtherHist Proofs.EtherFrames Proofs.EtherTx.
Local Open Scope Z_scope.

(* the summed quantity is the balance component of the C06 observation *)
Theorem C08_balance_is_observed :
  forall d s a, bal d s a = v_bal (view_acc d s a).
Proof. exact bal_view. Qed.

(* ---------------------------------------------------------------- (a) operations other than self-destruct *)

(* load, load_delegated, touch, inc_nonce, set_code, sload, sstore, tload, tstore, log,
   checkpoint, commit: every observed balance stays, nothing is burnt *)
Theorem C08_plain_operations_move_no_ether :
  forall d s cps o s' cps',
    journal s <> [] -> moves_no_ether o -> run_hop d (s, cps) o = Some (s', cps') ->
    (forall x, bal d s' x = bal d s x) /\ jburn (journal s') = jburn (journal s).
Proof. exact plain_hop_same8. Qed.

(* transfer, whatever its outcome (done, OutOfFunds, OverflowPayment) and whatever the balances
   (from = to included) *)
Theorem C08_transfer_conserves :
  forall d s f t v s' r us,
    WF d s -> 0 <= v -> NoDup us -> In f us -> In t us ->
    transfer d s f t v = Some (s', r) ->
    total d s' us = total d s us /\ jburn (journal s') = jburn (journal s).
Proof. exact transfer_total. Qed.

(* create_account_checkpoint, whatever its outcome (created, collision, endowment overflow) *)
Theorem C08_create_conserves :
  forall d s c a hs v s' r us,
    WF d s -> hop_ok d s (HCreate c a hs v) -> v <= bal d s c ->
    NoDup us -> In c us -> In a us ->
    create_account_checkpoint s c a hs v (spurious s) = Some (s', r) ->
    total d s' us = total d s us /\ jburn (journal s') = jburn (journal s).
Proof. exact create_total. Qed.

(* revert (corollary of C06): after any history within the C06 contract, reverting the checkpoint
   gives back every balance, the total and the burnt amount. No overflow hypothesis is needed:
   a self-destruct credit that wrapped is undone as well. *)
Theorem C08_revert_restores_total :
  forall d us s h s1 cp s2 cps,
    WF d s -> checkpoint s = (s1, cp) -> contract d (s1, []) h ->
    run_hops d (s1, []) h = Some (s2, cps) ->
    exists s3, checkpoint_revert s2 cp = Some s3 /\ (forall x, bal d s3 x = bal d s x) /\
               total d s3 us = total d s us /\ jburn (journal s3) = jburn (journal s).
Proof. exact revert_restores_total. Qed.

(* ---------------------------------------------------------------- (b) self-destruct *)

(* beneficiary <> contract: exact effect. Nothing is burnt according to the journal, and the
   total is kept unless the beneficiary's credit wraps, in which case exactly 2^256 wei vanish *)
Theorem C08_selfdestruct_to_other :
  forall d s a t s' hv te pd c us,
    WF d s -> NoDup us -> In a us -> In t us -> a <> t ->
    selfdestruct d s a t = Some (s', hv, te, pd, c) ->
    total d s' us = total d s us - (if pow256 <=? bal d s t + bal d s a then pow256 else 0) /\
    jburn (journal s') = jburn (journal s).
Proof. exact selfdestruct_other_total. Qed.

Theorem C08_selfdestruct_to_other_conserves :
  forall d s a t s' hv te pd c us,
    WF d s -> NoDup us -> In a us -> In t us -> a <> t ->
    bal d s t + bal d s a < pow256 ->
    selfdestruct d s a t = Some (s', hv, te, pd, c) ->
    total d s' us = total d s us /\ jburn (journal s') = jburn (journal s).
Proof.
  intros d s a t s' hv te pd c us W ND Ia It N O L.
  destruct (selfdestruct_other_total d s a t s' hv te pd c us W ND Ia It N L) as [A B].
  destruct (pow256 <=? bal d s t + bal d s a) eqn:E; [apply Z.leb_le in E|]; split; auto; lia.
Qed.

(* beneficiary = contract: the total drops by exactly the contract's balance when the account is
   deleted (created in this transaction, or before CANCUN) and the journal records that burn;
   otherwise (CANCUN, older contract) nothing happens to the balances *)
Theorem C08_selfdestruct_to_self :
  forall d s a s' hv te pd c us,
    WF d s -> NoDup us -> In a us ->
    selfdestruct d s a a = Some (s', hv, te, pd, c) ->
    total d s' us = total d s us - (if sd_deletes s a then bal d s a else 0) /\
    jburn (journal s') = jburn (journal s) + (if sd_deletes s a then bal d s a else 0).
Proof. exact selfdestruct_self_total. Qed.

Theorem C08_sd_deletes_definition :
  forall s a, sd_deletes s a =
    (match st s a with Some acc => a_created acc | None => false end) || negb (cancun s).
Proof. reflexivity. Qed.

(* F13 (recorded finding, class C08-F13-selfdestruct-credit-overflow): without the no-overflow
   hypothesis conservation is false. CANCUN, contract 1 holding 5 wei self-destructs to
   beneficiary 2 holding 2^256-3: the beneficiary ends with 2 wei, 2^256 wei are gone. *)
Definition f13_db : db :=
  mkDb (fun a => if a =? 1 then Some (5, 1, 1) else if a =? 2 then Some (pow256 - 3, 0, 0) else None)
       (fun _ _ => 0) (fun _ => None).
Definition f13_state : jstate := fst (load_account f13_db (jnew true true (fun _ => false)) 1).

Lemma f13_wf : WF f13_db f13_state.
Proof.
  apply WF_load. split; [split|split].
  - intros a acc H. discriminate.
  - intros a b n c. unfold f13_db. cbn [db_basic].
    destruct (a =? 1); [intros [= <- _ _]; unfold_pows; lia|].
    destruct (a =? 2); [intros [= <- _ _]; unfold_pows; lia|discriminate].
  - intros a acc H. discriminate.
  - cbn. congruence.
Qed.

Theorem C08_selfdestruct_credit_overflow_refuted :
  exists d s a t s' hv te pd c us,
    WF d s /\ hop_ok d s (HSelfdestruct a t) /\ NoDup us /\ In a us /\ In t us /\ a <> t /\
    selfdestruct d s a t = Some (s', hv, te, pd, c) /\
    bal d s a = 5 /\ bal d s t = pow256 - 3 /\ bal d s' a = 0 /\ bal d s' t = 2 /\
    total d s' us = total d s us - pow256 /\ jburn (journal s') = jburn (journal s).
Proof.
  exists f13_db, f13_state, 1, 2.
  destruct (selfdestruct f13_db f13_state 1 2) as [[[[[s' hv] te] pd] c]|] eqn:E; [|vm_compute in E; discriminate].
  exists s', hv, te, pd, c, [1; 2].
  split; [exact f13_wf|]. split; [exact I|].
  split; [repeat constructor; cbn; intuition discriminate|].
  split; [cbn; auto|]. split; [cbn; auto|]. split; [discriminate|]. split; [reflexivity|].
  assert (S : s' = fst (fst (fst (fst (match selfdestruct f13_db f13_state 1 2 with Some x => x | None => (s', hv, te, pd, c) end))))).
  { rewrite E. reflexivity. }
  rewrite S. vm_compute. repeat split; reflexivity.
Qed.

(* ---------------------------------------------------------------- (c) every history *)

(* one operation other than revert: total + burnt-according-to-the-journal is invariant *)
Theorem C08_operation_conserves :
  forall d us s cps o s' cps',
    WF d s -> hop_ok8 d s o -> NoDup us -> (forall a, In a (hop_addrs o) -> In a us) ->
    o <> HRevert -> run_hop d (s, cps) o = Some (s', cps') ->
    total d s' us + jburn (journal s') = total d s us + jburn (journal s).
Proof. exact phi_hop_plain. Qed.

(* every history of the 16 operation kinds (nested checkpoint / commit / revert in any order,
   failed transfers and creates, balances up to 2^256-1) from any well-formed state: the total
   afterwards = the total before minus the ether burnt by the self-destructs-to-self that the
   history did not revert. Nothing else creates or destroys ether. *)
Theorem C08_history_conserves :
  forall d us s h s' cps',
    WF d s -> NoDup us -> covers us h -> contract8 d (s, []) h ->
    run_hops d (s, []) h = Some (s', cps') ->
    total d s' us = total d s us - (jburn (journal s') - jburn (journal s)) /\ WF d s'.
Proof. exact history_conserves. Qed.

Theorem C08_contract_extends_C06 :
  forall d h sc, contract8 d sc h -> contract d sc h.
Proof. exact contract8_contract. Qed.

Theorem C08_burnt_definition :
  forall e, eburn e = match e with AccountDestroyed a t _ had => if a =? t then had else 0 | _ => 0 end.
Proof. reflexivity. Qed.

(* the same for trees of frames (Model/Frames.v, C07): calls with value, creates with
   endowment, their returns with commit or revert, and the host operations of the running frames.
   make_create_frame checks the creator's balance itself, so the hypotheses are the C06 contract of
   the events (econtract8's first component) and no overflowing self-destruct credit. *)
Theorem C08_frames_conserve :
  forall d us s es s' cps',
    WF d s -> NoDup us -> ecovers us es -> econtract8 d (s, []) es ->
    frun d (s, []) es = Some (s', cps') ->
    total d s' us = total d s us - (jburn (journal s') - jburn (journal s)) /\ WF d s'.
Proof. exact frames_conserve. Qed.

Theorem C08_econtract8_definition :
  forall d sc e r, econtract8 d sc (e :: r) =
    (contract d sc (hops_of_event d sc e) /\
     match e with
     | EHop (HSelfdestruct a t) => a <> t -> bal d (fst sc) t + bal d (fst sc) a < pow256
     | _ => True
     end /\
     match fstep d sc e with Some (sc', _) => econtract8 d sc' r | None => True end).
Proof. reflexivity. Qed.

(* ---------------------------------------------------------------- (d) whole transaction *)

(* deduct_caller; frames (a history h); reimburse_caller; reward_beneficiary (if enabled), with
   the amounts of the C09 settlement model under the bounds validation provides ([validated]) and
   a beneficiary credit that does not saturate:
     total after = total before - basefee * gas_used (LONDON onwards) - blob fee
                   - burnt - (tip * gas_used if rewards are disabled),
   tip = effective price - basefee from LONDON, effective price before. *)
Theorem C08_transaction_conserves :
  forall d us spec e initial floor f auth caller cb reward h s0 s1 s2 s3 s4 stl,
    WF d s0 -> NoDup us -> In caller us -> In cb us -> caller <> cb -> covers us h ->
    tx_stations d spec e floor f auth caller cb reward (exec_hist d h) s0 s1 s2 s3 s4 stl ->
    validated spec e initial floor f auth (bal d s0 caller) (bal d s2 caller - bal d s1 caller) (bal d s2 cb) ->
    bal d s2 cb + tip spec e * st_gas_used stl < pow256 ->
    total d s4 us =
      total d s0 us
      - (if enabled spec LONDON then b_basefee (e_block e) * st_gas_used stl else 0)
      - blob_fee spec e
      - (jburn (journal s2) - jburn (journal s0))
      - (if reward then 0 else tip spec e * st_gas_used stl).
Proof. exact tx_conserves. Qed.

(* the same with the execution given as a tree of frame events *)
Theorem C08_transaction_conserves_frames :
  forall d us spec e initial floor f auth caller cb reward es s0 s1 s2 s3 s4 stl,
    WF d s0 -> NoDup us -> In caller us -> In cb us -> caller <> cb -> ecovers us es ->
    tx_stations d spec e floor f auth caller cb reward (exec_frames d es) s0 s1 s2 s3 s4 stl ->
    validated spec e initial floor f auth (bal d s0 caller) (bal d s2 caller - bal d s1 caller) (bal d s2 cb) ->
    bal d s2 cb + tip spec e * st_gas_used stl < pow256 ->
    total d s4 us =
      total d s0 us
      - (if enabled spec LONDON then b_basefee (e_block e) * st_gas_used stl else 0)
      - blob_fee spec e
      - (jburn (journal s2) - jburn (journal s0))
      - (if reward then 0 else tip spec e * st_gas_used stl).
Proof. exact tx_conserves_frames. Qed.

Theorem C08_exec_definitions :
  forall d h es s1 s2,
    (exec_hist d h s1 s2 <-> contract8 d (s1, []) h /\ exists cps, run_hops d (s1, []) h = Some (s2, cps)) /\
    (exec_frames d es s1 s2 <-> econtract8 d (s1, []) es /\ exists cps, frun d (s1, []) es = Some (s2, cps)).
Proof. intros. split; reflexivity. Qed.

(* ---------------------------------------------------------------- non-vacuity *)
(* pre-CANCUN: account 2 (7 wei) self-destructs to itself inside a checkpoint that is reverted
   (burn undone), then again outside (7 wei burnt); transfers that succeed, run out of funds and
   overflow; a create with endowment *)
Definition ex8_db : db :=
  mkDb (fun a => if a =? 1 then Some (pow256 - 1, 5, 0) else if a =? 2 then Some (7, 0, 0)
                 else if a =? 4 then Some (100, 1, 0) else None)
       (fun _ _ => 0) (fun _ => None).
Definition ex8_hist : list hop :=
  [HLoad 1; HLoad 2; HLoad 4; HLoad 5; HTransfer 4 2 5; HTransfer 2 1 3; HTransfer 2 4 1000;
   HCheckpoint; HSelfdestruct 2 2; HRevert; HCreate 4 5 false 10; HSstore 5 0 4; HCommit;
   HSelfdestruct 2 2; HSelfdestruct 4 5].
Definition ex8_s0 : jstate := jnew true false (fun _ => false).

Example C08_hypotheses_satisfiable :
  WF ex8_db ex8_s0 /\ NoDup [1; 2; 4; 5] /\ covers [1; 2; 4; 5] ex8_hist /\
  contract8 ex8_db (ex8_s0, []) ex8_hist /\
  exists s' cps, run_hops ex8_db (ex8_s0, []) ex8_hist = Some (s', cps) /\
    total ex8_db ex8_s0 [1; 2; 4; 5] = pow256 - 1 + 7 + 100 /\
    total ex8_db s' [1; 2; 4; 5] = pow256 - 1 + 7 + 100 - 12 /\
    jburn (journal s') - jburn (journal ex8_s0) = 12.
Proof.
  split; [|split; [|split; [|split]]].
  - split; [split|split].
    + intros a acc H. discriminate.
    + intros a b n c. unfold ex8_db. cbn [db_basic].
      destruct (a =? 1); [intros [= <- _ _]; unfold_pows; lia|].
      destruct (a =? 2); [intros [= <- _ _]; unfold_pows; lia|].
      destruct (a =? 4); [intros [= <- _ _]; unfold_pows; lia|discriminate].
    + intros a acc H. discriminate.
    + cbn. congruence.
  - repeat constructor; cbn; intuition discriminate.
  - intros a. cbn. intuition.
  - vm_compute. repeat split; try (intros H; discriminate H); try reflexivity; try (intros; reflexivity).
    all: try (intros acc H C; injection H as <-; discriminate C).
  - destruct (run_hops ex8_db (ex8_s0, []) ex8_hist) as [[s' cps]|] eqn:E; [|vm_compute in E; discriminate].
    exists s', cps. split; [reflexivity|].
    assert (S : s' = fst (match run_hops ex8_db (ex8_s0, []) ex8_hist with Some x => x | None => (s', cps) end)).
    { rewrite E. reflexivity. }
    rewrite S. vm_compute. repeat split; reflexivity.
Qed.

(* a LONDON transaction: the sender (1) pays 3 wei to contract 2, which self-destructs to itself
   (10 wei burnt); 50400 gas used at effective price 9, base fee 7, tip 2; rewards on and off *)
Definition ex8t_env : env :=
  mkEnv (mainnet_cfg 1) (mkBlock 30000000 7 true (Some 1))
        (mkTx 100000 20 false 0 [] (Some 0) (Some 1) [] (Some 2) [] None None).
Definition ex8t_db : db :=
  mkDb (fun a => if a =? 1 then Some (10 ^ 18, 0, 0) else if a =? 2 then Some (7, 1, 1)
                 else if a =? 9 then Some (5, 0, 0) else None)
       (fun _ _ => 0) (fun _ => None).
Definition ex8t_s0 : jstate := fst (load_account ex8t_db (jnew true false (fun _ => false)) 1).
Definition ex8t_facc1 : account :=
  mkAcc (10 ^ 18 - 100000 * 9) 1 0 false false true false false (fun _ => None).
Definition ex8t_s1 : jstate := put ex8t_s0 1 ex8t_facc1.
Definition ex8t_h : list hop := [HLoad 2; HTransfer 1 2 3; HSelfdestruct 2 2].
Definition ex8t_s2 : jstate :=
  match run_hops ex8t_db (ex8t_s1, []) ex8t_h with Some (x, _) => x | None => ex8t_s1 end.
Definition ex8t_stl : settlement :=
  mkSettle (mkGas 100000 40000 9600) 50400 9600 (10 ^ 18 - 3 - 9 * 50400) (5 + 2 * 50400).
Definition acc_or (o : option account) : account := match o with Some a => a | None => ex8t_facc1 end.
Definition ex8t_s3 : jstate := put ex8t_s2 1 (acc_bal (acc_or (st ex8t_s2 1)) (st_caller ex8t_stl)).
Definition ex8t_s4 : jstate :=
  put (fst (load_account ex8t_db ex8t_s3 9)) 9
      (acc_bal (acc_touched (acc_or (st (fst (load_account ex8t_db ex8t_s3 9)) 9)) true) (st_coinbase ex8t_stl)).

Lemma ex8t_wf : WF ex8t_db ex8t_s0.
Proof.
  apply WF_load. split; [split|split].
  - intros a acc H. discriminate.
  - intros a b n c. unfold ex8t_db. cbn [db_basic].
    destruct (a =? 1); [intros [= <- _ _]; unfold_pows; lia|].
    destruct (a =? 2); [intros [= <- _ _]; unfold_pows; lia|].
    destruct (a =? 9); [intros [= <- _ _]; unfold_pows; lia|discriminate].
  - intros a acc H. discriminate.
  - cbn. congruence.
Qed.

Example C08_transaction_hypotheses_satisfiable :
  forall reward : bool,
    let s4 := if reward then ex8t_s4 else ex8t_s3 in
    WF ex8t_db ex8t_s0 /\ NoDup [1; 2; 9] /\ covers [1; 2; 9] ex8t_h /\
    tx_stations ex8t_db LONDON ex8t_env 0 (mkFrame FOk 40000 9600) 0 1 9 reward (exec_hist ex8t_db ex8t_h)
                ex8t_s0 ex8t_s1 ex8t_s2 ex8t_s3 s4 ex8t_stl /\
    validated LONDON ex8t_env 21000 0 (mkFrame FOk 40000 9600) 0
              (bal ex8t_db ex8t_s0 1) (bal ex8t_db ex8t_s2 1 - bal ex8t_db ex8t_s1 1) (bal ex8t_db ex8t_s2 9) /\
    bal ex8t_db ex8t_s2 9 + tip LONDON ex8t_env * st_gas_used ex8t_stl < pow256 /\
    total ex8t_db ex8t_s0 [1; 2; 9] = 10 ^ 18 + 7 + 5 /\
    total ex8t_db s4 [1; 2; 9] = 10 ^ 18 + 7 + 5 - 7 * 50400 - 10 - (if reward then 0 else 2 * 50400).
Proof.
  intros reward s4.
  split; [exact ex8t_wf|]. split; [repeat constructor; cbn; intuition discriminate|].
  split; [intros a; cbn; intuition|].
  split.
  { constructor.
    - eexists. exists ex8t_facc1. eexists. split; [vm_compute; reflexivity|].
      split; [vm_compute; reflexivity|]. split; [vm_compute; reflexivity|]. split; [discriminate|reflexivity].
    - split.
      + vm_compute. repeat split; try (intros H; discriminate H); try reflexivity; try (intros; reflexivity).
      + unfold ex8t_s2. destruct (run_hops ex8t_db (ex8t_s1, []) ex8t_h) as [[x c]|] eqn:E; [eexists; reflexivity|].
        vm_compute in E. discriminate E.
    - vm_compute. reflexivity.
    - unfold ex8t_s3. destruct (st ex8t_s2 1) as [a|] eqn:E; [exists a; split; reflexivity|].
      vm_compute in E. discriminate E.
    - unfold s4. destruct reward; [|reflexivity]. unfold ex8t_s4.
      destruct (st (fst (load_account ex8t_db ex8t_s3 9)) 9) as [a|] eqn:E; [exists a; split; reflexivity|].
      vm_compute in E. discriminate E. }
  split; [constructor; try (vm_compute; intuition discriminate)|].
  split; [vm_compute; reflexivity|].
  split; [vm_compute; reflexivity|].
  unfold s4. destruct reward; vm_compute; reflexivity.
Qed.
