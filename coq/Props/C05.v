(* C05 — each opcode and each precompile exists exactly from its activating hardfork.
   Finite statements (21 SpecIds x 256 bytes x {legacy, EOF}; 21 SpecIds x precompile sets),
   proved by computation over the tables reflected from the compiled code (Gen/OpGate.v,
   Gen/Precompiles.v); the bounds are in the statements.  Proofs in Proofs/GateProofs.v. *)
From Coq Require Import ZArith List Bool.
From RevmV Require Import Gen.OpGate Gen.Precompiles Spec.GateSpec Proofs.GateProofs.
Import ListNotations.
Local Open Scope Z_scope.

(* the reflector enumerated exactly the hardforks the specification knows *)
Theorem C05_spec_list : OpGate.specs = GateSpec.specs.
Proof. exact specs_same. Qed.

(* the generated tables are total on the domain: one row per hardfork, 256 cells per row
   (so [gen_gate] never falls back to its default on the quantified domain) *)
Theorem C05_tables_total :
  rows_wf OpGate.legacy_rows = true /\ rows_wf OpGate.eof_rows = true /\
  length OpGate.eof_validate = 256%nat.
Proof. exact tables_wf. Qed.

(* legacy code: class of executing byte b in hardfork s = the EIP table, every cell *)
Theorem C05_opcode_gate_legacy :
  forall s b, In s GateSpec.specs -> 0 <= b < 256 -> gen_gate s b Legacy = gate s b Legacy.
Proof. exact gate_legacy. Qed.

(* EOF code, in the hardforks that have EOF *)
Theorem C05_opcode_gate_eof :
  forall s b, In s GateSpec.specs -> enabled s OSAKA = true -> 0 <= b < 256 ->
    gen_gate s b Eof = gate s b Eof.
Proof. exact gate_eof. Qed.

(* the property's wording: undefined-instruction behaviour iff not (yet) introduced *)
Theorem C05_undefined_iff_not_introduced_legacy :
  forall s b, In s GateSpec.specs -> 0 <= b < 256 ->
    (undefined_like (gen_gate s b Legacy) = true <-> introduced s b Legacy = false).
Proof. exact (check_iff_sound Legacy _ iff_legacy_ok). Qed.

Theorem C05_undefined_iff_not_introduced_eof :
  forall s b, In s eof_specs -> 0 <= b < 256 ->
    (undefined_like (gen_gate s b Eof) = true <-> introduced s b Eof = false).
Proof. exact (check_iff_sound Eof _ iff_eof_ok). Qed.

(* outside the property's domain, recorded: the interpreter has no OSAKA gate of its own on EOF
   instructions — an EOF container executed in an earlier hardfork sees the same table *)
Theorem C05_eof_interpreter_has_no_fork_gate :
  forall s b, In s GateSpec.specs -> enabled s OSAKA = false -> 0 <= b < 256 ->
    gen_gate s b Eof = gate s b Eof.
Proof. exact gate_eof_pre. Qed.

(* precompile address sets: Precompiles::new(PrecompileSpecId::from_spec_id s) and what the
   handler's load_precompiles installs *)
Theorem C05_precompile_sets :
  forall s, In s GateSpec.specs -> gen_precompiles s = Some (precompiles s).
Proof. exact (check_pc_sound _ pc_new_ok). Qed.

Theorem C05_precompile_sets_loaded :
  forall s, In s GateSpec.specs -> gen_precompiles_loaded s = Some (precompiles s).
Proof. exact (check_pc_sound _ pc_loaded_ok). Qed.

(* non-vacuity / readable instances *)
Example C05_examples :
  In SHANGHAI GateSpec.specs /\ In OSAKA eof_specs /\
  gate MERGE 0x5f Legacy = C_LATER /\ gate SHANGHAI 0x5f Legacy = C_DEFINED /\
  gate CONSTANTINOPLE 0xf5 Legacy = C_DEFINED /\ gate BYZANTIUM 0xf5 Legacy = C_LATER /\
  gate OSAKA 0xe0 Legacy = C_EOF_ONLY /\ gate OSAKA 0xe0 Eof = C_DEFINED /\
  gate OSAKA 0x56 Eof = C_EOF_REJECT_LEGACY /\ gate LATEST 0x0c Legacy = C_UNDEFINED /\
  precompiles SPURIOUS_DRAGON = [1; 2; 3; 4] /\ precompiles CANCUN = [1; 2; 3; 4; 5; 6; 7; 8; 9; 10].
Proof. vm_compute. intuition. Qed.
