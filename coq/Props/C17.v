(* C17 - the recorded reverts give the values before each merged group; reverting the last j
   groups leaves a bundle that describes the state after the earlier groups. *)
From stdpp Require Import gmap.
From Coq Require Import ZArith.
From RevmV Require Import Model.Bundle Spec.BundleSpec Spec.BundleHist Proofs.BundleProofs Proofs.BundleProofsRev
  Proofs.BundleWitness.
Local Open Scope Z_scope.

(* state after the first n groups *)
Definition after (p0 : plain) (groups : list (list txout)) (n : nat) : plain :=
  plain_after p0 (firstn n groups).

(* Clause 1 (PROVED below, C17_reverts_correct): group k's plain reverts, applied by the
   specification apply_plain_revert to the state after group k (wiped storage falls back to the
   pre-bundle state p0, RevertToSlot::Destroyed inside a wiped revert reads as the p0 value), give
   the state before group k - hence for every touched account its info before group k or its
   absence, and for every slot its value before. *)
Definition C17_statement_reverts : Prop :=
  forall p0 groups b (k : nat) r,
    HistOK p0 groups -> bundle_of true groups = Some b ->
    nth_error (to_plain_state_reverts (bs_reverts b)) k = Some r ->
    plain_equiv (apply_plain_revert p0 r (after p0 groups (S k))) (after p0 groups k).
(* Clause 2 (NOT provable: false for either OriginalValuesKnown setting, see the two refutations
   below; tested outside the two known-finding classes by Corr/C17.v). *)
Definition C17_statement_revert_changeset : Prop :=
  forall p0 groups b (j : nat),
    HistOK p0 groups -> bundle_of true groups = Some b -> (j <= length groups)%nat ->
    plain_equiv (apply_changeset (to_plain_state (revert b j) false) p0)
                (after p0 groups (length groups - j)).


(* Clause 1 for ALL TransOK histories and merge schedules.  Proof (Proofs/BundleProofsRev.v): for
   every reachable cell (bundle status or previous status of an unknown address) x (merged
   transition status, wiped or not) the AccountRevert built by update_and_create_revert - all five
   shapes: previous values of changed slots, new_selfdestructed, new_selfdestructed_again with and
   without wipe, new_selfdestructed_from_bundle - maps (info, slot) after the group to (info, slot)
   before it (ucr_revert); dropping an empty revert changes nothing; untouched addresses have no
   revert and did not change; induction over the groups (rev_history). *)
Theorem C17_reverts_correct : C17_statement_reverts.
Proof. exact reverts_correct. Qed.

(* per account and per slot reading of the same fact (the property's wording): the revert recorded
   for address a in a group gives a's info before the group (RevertTo), its absence (DeleteIt) or
   says it did not change; a listed slot gives its value before the group, RevertToSlot::Destroyed
   and unlisted slots of a wiped revert read as the pre-bundle value, unlisted slots otherwise did
   not change *)
Theorem C17_revert_per_account :
  forall p0 (g : gmap Z arevert) cur a,
    acc_get (apply_plain_revert p0 (mkPR (omap pr_account_of g) (omap pr_storage_of g)) cur) a
    = match g !! a with
      | Some rv => match r_acc rv with
                   | RevertTo i => Some (strip i) | DeleteIt => None | DoNothing => acc_get cur a end
      | None => acc_get cur a
      end.
Proof. exact plain_revert_acc. Qed.
Theorem C17_revert_per_slot :
  forall p0 (g : gmap Z arevert) cur a k,
    stor_get (apply_plain_revert p0 (mkPR (omap pr_account_of g) (omap pr_storage_of g)) cur) a k
    = match g !! a with
      | None => stor_get cur a k
      | Some rv =>
          match r_storage rv !! k with
          | None => if r_wipe rv then stor_get p0 a k else stor_get cur a k
          | Some (RSome v) => v
          | Some RDestroyed => if r_wipe rv then stor_get p0 a k else 0
          end
      end.
Proof. exact plain_revert_stor. Qed.

(* non-vacuity of clause 1: a history with creation, destruction and re-creation whose bundle has
   three revert groups *)
Example C17_reverts_satisfiable :
  HistOK p5 w5 /\ exists b, bundle_of true w5 = Some b /\
    length (to_plain_state_reverts (bs_reverts b)) = 3%nat.
Proof.
  split; [split; [exact p5_wf | split; [exact p5_nocode | vm_compute; reflexivity]]|].
  exists (bof w5). split; [apply bof_some; vm_compute; reflexivity|]. vm_compute. reflexivity.
Qed.

(* proved: Reverts::to_plain_state_reverts is exact, group by group and address by address *)
Theorem C17_plain_reverts_groups :
  forall rs, length (to_plain_state_reverts rs) = length rs.
Proof. exact plain_reverts_length. Qed.
Theorem C17_plain_reverts_account :
  forall (g : gmap Z arevert) a,
    pr_accounts (mkPR (omap pr_account_of g) (omap pr_storage_of g)) !! a =
    match g !! a with
    | None => None
    | Some r => match r_acc r with
                | RevertTo i => Some (Some i) | DeleteIt => Some None | DoNothing => None end
    end.
Proof. exact plain_reverts_account. Qed.
Theorem C17_plain_reverts_storage :
  forall (g : gmap Z arevert) a,
    pr_storage (mkPR (omap pr_account_of g) (omap pr_storage_of g)) !! a =
    match g !! a with
    | None => None
    | Some r => if r_wipe r || negb (map_is_empty (r_storage r))
                then Some (r_wipe r, r_storage r) else None
    end.
Proof. exact plain_reverts_storage. Qed.

(* proved: revert(j) removes exactly min(j, n) revert groups *)
Theorem C17_revert_pops :
  forall b j, length (bs_reverts (revert b j)) = (length (bs_reverts b) - j)%nat.
Proof. exact revert_length. Qed.

(* REFUTED for OriginalValuesKnown::Yes (known finding C17-revert-reinsert-loses-original):
   create a contract writing slot 1 = 4 | selfdestruct it; after revert(1) the changeset with
   original values declared known omits slot 1, although the pre-state has no such account. *)
Theorem C17_revert_changeset_known_refuted :
  exists p0 groups b,
    HistOK p0 groups /\ bundle_of true groups = Some b /\
    ~ plain_equiv (apply_changeset (to_plain_state (revert b 1) true) p0)
                  (after p0 groups (length groups - 1)).
Proof.
  exists pe, w1, bw1. split; [split; [exact pe_wf | split; [exact pe_nocode | vm_compute; reflexivity]]|].
  split; [apply bof_some; vm_compute; reflexivity|].
  intros [_ H]. specialize (H 1 1). vm_compute in H. discriminate.
Qed.
(* REFUTED for OriginalValuesKnown::No as well (known finding C17-revert-keeps-zeroed-slots): a
   contract of the pre-state with slot 2 = 5 is selfdestructed | re-created writing slot 2; after
   revert(2) the bundle keeps slot 2 as (0, 0) under status Loaded and the changeset taken with
   original values not known writes 0 over the database value 5. *)
Theorem C17_revert_changeset_unknown_refuted :
  exists p0 groups b,
    HistOK p0 groups /\ bundle_of true groups = Some b /\
    ~ plain_equiv (apply_changeset (to_plain_state (revert b 2) false) p0)
                  (after p0 groups (length groups - 2)).
Proof.
  exists p6, w6, bw6. split; [split; [exact p6_wf | split; [exact p6_nocode | vm_compute; reflexivity]]|].
  split; [apply bof_some; vm_compute; reflexivity|].
  intros [_ H]. specialize (H 1 2). vm_compute in H. discriminate.
Qed.
(* the first history is fine with OriginalValuesKnown::No *)
Example C17_revert_changeset_unknown_witness :
  exists b, bundle_of true w1 = Some b /\
    stor_get (apply_changeset (to_plain_state (revert b 1) false) pe) 1 1 = 4 /\
    acc_get (apply_changeset (to_plain_state (revert b 1) false) pe) 1 = acc_get (after pe w1 1) 1.
Proof. exists bw1. split; [apply bof_some; vm_compute; reflexivity|]. split; vm_compute; reflexivity. Qed.
