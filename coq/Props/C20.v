(* C20 — database wrappers answer queries exactly like the data they wrap.
   Only statements; proofs live in Proofs/DbProofs.v.  Model: Model/Db.v; plain-data
   specification: Spec/DbSpec.v.

   Hypotheses used below (each is shown satisfiable by an Example at the end):
   (a) wf_data u : the wrapped data holds storage / answers has_storage=true only for addresses
       whose basic() is not None;
   (b) code is content addressed (code_wf / info_in_wf: a code hash is the hash of the code it
       comes with) and code_by_hash is only asked for the hash of code that is known
       (code_known), as revm does;
   (c) replace_account_storage is applied to existing accounts only;
   (d) has_sound u : the wrapped database's own has_storage answer never misses storage it holds
       (a database that keeps the trait default does not satisfy it; the wrappers forward it). *)
From stdpp Require Import gmap.
From RevmV Require Import Spec.DbSpec Model.Db Proofs.DbProofs.
Local Open Scope Z_scope.

(* Refinement: for every wrapped database and EVERY history of queries (through the &mut
   methods, the _ref methods, WrapDatabaseRef, the auto_impl forwards, DatabaseComponents),
   commits and inserts, every answer through CacheDB is the answer of plain data
   "underlying ⊕ committed changes".  For has_storage the guaranteed part is: storage that
   exists is never missed (DatabaseComponents excepted: it answers false — known finding). *)
Theorem C20_cache_refines_plain_data :
  forall (H : Z -> Z) (u : udb) (h : list op),
    wf_data u -> has_sound u -> code_wf H u -> ops_ok H u u cache_new h ->
    refines u cache_new u h.
Proof. intros H u h Hwf Hs Hc Hok. eapply history_refines; eauto. apply R_init; exact Hc. Qed.

(* ... and every answer, has_storage included, is exactly the plain-data answer when no
   non-zero slot of the wrapped data is overwritten with zero through the wrapper and the
   wrapped database's has_storage answer is exact. *)
Theorem C20_cache_equals_plain_data :
  forall (H : Z -> Z) (u : udb) (h : list op),
    wf_data u -> has_sound u -> has_complete u -> code_wf H u -> ops_ok H u u cache_new h ->
    Forall (nzo u) h -> forallb (fun o => negb (comp_has o)) h = true ->
    run u cache_new h = spec_run u h.
Proof. intros H u h Hwf Hs Hc Hcw Hok. eapply history_exact; eauto. apply R_init; exact Hcw. apply nz_inv_new. Qed.

(* The residual imprecision is real (known finding C20-has-storage-after-zeroing): the only
   non-zero slot is overwritten with zero by a commit; has_storage still answers true. *)
Definition wA : Z := 1.
Definition wU : udb := mkU {[wA := mkInfo 1 0 KECCAK_EMPTY]} {[wA := {[1 := 7]}]} ∅ ∅ (fun a => a =? wA).
Definition wH : list op :=
  [Commit [(wA, mkChange true false false (mkInfoIn (mkInfo 1 0 KECCAK_EMPTY) None) [(1, 0)])];
   Query ViaMut (QStorage wA 1); Query ViaMut (QHas wA)].
Theorem C20_has_storage_exact_refuted :
  run wU cache_new wH = [AUnit; AWord 0; ABool true] /\ spec_run wU wH = [AUnit; AWord 0; ABool false].
Proof. split; vm_compute; reflexivity. Qed.

(* The &mut and _ref variants agree, and a &mut query changes no _ref answer *)
Theorem C20_mut_ref_agree_caching_invisible :
  forall u c q, wf_data u -> has_sound u ->
    view_eq u c (fst (query_mut u c q)) /\ snd (query_mut u c q) = query_ref u c q.
Proof. exact query_invisible. Qed.
(* ... hence asking twice, or asking anything in between, never changes an answer *)
Theorem C20_caching_never_changes_an_answer :
  forall u c q q', wf_data u -> has_sound u ->
    snd (query_mut u (fst (query_mut u c q)) q') = snd (query_mut u c q') /\
    query_ref u (fst (query_mut u c q)) q' = query_ref u c q'.
Proof. exact later_answers_unchanged. Qed.
(* without (a) the variants differ: storage of an address without account *)
Definition wU2 : udb := mkU ∅ {[wA := {[1 := 7]}]} ∅ ∅ (fun _ => false).
Theorem C20_mut_ref_agree_needs_wf_refuted :
  snd (storage wU2 cache_new wA 1) = 0 /\ storage_ref wU2 cache_new wA 1 = 7.
Proof. split; vm_compute; reflexivity. Qed.

(* WrapDatabaseRef and the auto_impl forwards are identity wrappers over the _ref / &mut
   methods; DatabaseComponents forwards everything except has_storage *)
Theorem C20_wrappers_are_identities :
  forall u c q,
    step u c (Query ViaRef q) = (c, query_ref u c q) /\
    step u c (Query ViaMut q) = query_mut u c q /\
    ((forall a, q <> QHas a) -> step u c (Query ViaComp q) = query_mut u c q) /\
    ((forall a, q <> QHas a) -> step u c (Query ViaCompRef q) = (c, query_ref u c q)).
Proof.
  intros u c q. repeat split; intros Hq; destruct q; try reflexivity; exfalso; eapply Hq; reflexivity.
Qed.
Theorem C20_components_has_storage_refuted :
  snd (step wU cache_new (Query ViaComp (QHas wA))) = ABool false /\ p_has_storage wU wA = true.
Proof. split; vm_compute; reflexivity. Qed.

(* State (block-state database), read side: starting from an empty cache, every answer is the
   answer of the wrapped data (account infos of empty accounts normalised by st_norm), except
   that storage of an account that was never loaded panics (unreachable!) *)
Theorem C20_state_reads :
  forall u qs, wf_data u -> has_sound u ->
    Forall2 (fun q x => x = st_expected u q \/ x = APanic /\ is_storage_query q)
            qs (st_run u state_new (map SQuery qs)).
Proof. intros u qs Hwf Hs. apply st_reads; auto. apply SInv_new. Qed.
Theorem C20_state_norm_is_identity : forall i, i_code_hash i <> 0 -> st_norm i = i.
Proof. exact st_norm_id. Qed.
(* block hashes: after any history of queries the answer for block n is the wrapped data's
   hash, whether or not n is cached or was pruned *)
Theorem C20_state_block_hash_pruning :
  forall u qs n, wf_data u -> has_sound u ->
    snd (st_block_hash u (st_after u state_new qs) n) = p_block_hash u n.
Proof. exact st_block_hash_any. Qed.

(* ---- non-vacuity ---- *)
Lemma wU_wf : wf_data wU /\ has_sound wU /\ has_complete wU.
Proof.
  assert (forall a k, a <> wA -> p_storage wU a k = 0) as Hne.
  { intros a k Ha. unfold p_storage, slots_of, wU, u_stor. rewrite lookup_singleton_ne by congruence. reflexivity. }
  assert (forall a, p_basic wU a = None -> a <> wA) as Hb.
  { intros a Ha ->. unfold p_basic, wU, u_acc in Ha. rewrite lookup_singleton in Ha. discriminate. }
  repeat split.
  - intros k. apply Hne, Hb. assumption.
  - unfold wU, u_has. apply Z.eqb_neq, Hb. assumption.
  - intros a k Hk. unfold wU, u_has. apply Z.eqb_eq. destruct (decide (a = wA)); [assumption|]. exfalso. apply Hk, Hne. assumption.
  - intros a Ha. unfold wU, u_has in Ha. apply Z.eqb_eq in Ha as ->. exists 1. vm_compute. discriminate.
Qed.
Definition exH (h : Z) : Z := if h =? 0xabc then 5 else 0.
Definition exHist : list op :=
  [Query ViaMut (QBasic wA); Query ViaRef (QStorage wA 1); Query ViaMut (QStorage wA 1);
   InsInfo 2 (mkInfoIn (mkInfo 0 9 KECCAK_EMPTY) (Some (5, 0xabc)));
   Query ViaMut (QCode 0xabc); Query ViaComp (QBlockHash 7);
   Commit [(wA, mkChange true false false (mkInfoIn (mkInfo 2 0 KECCAK_EMPTY) None) [(2, 4)]);
           (3, mkChange true true false (mkInfoIn (mkInfo 0 0 KECCAK_EMPTY) None) [])];
   ReplStorage 2 [(1, 1)]; InsStorage wA 3 0; Query ViaRef (QHas wA); Query ViaMut (QHas 2)].
Example C20_hypotheses_satisfiable :
  wf_data wU /\ has_sound wU /\ has_complete wU /\ code_wf exH wU /\
  ops_ok exH wU wU cache_new exHist /\ Forall (nzo wU) exHist /\
  forallb (fun o => negb (comp_has o)) exHist = true /\
  run wU cache_new exHist = spec_run wU exHist /\
  In (ABool true) (run wU cache_new exHist).
Proof.
  destruct wU_wf as (H1 & H2 & H3).
  split; [exact H1|]. split; [exact H2|]. split; [exact H3|].
  split. { split; [reflexivity|]. split; [reflexivity|]. intros h c. unfold wU, u_code. rewrite lookup_empty. discriminate. }
  split.
  { unfold exHist. cbn [ops_ok op_ok].
    repeat match goal with |- _ /\ _ => split | |- True => exact I end.
    - vm_compute. auto.
    - right; right. vm_compute. eauto.
    - repeat constructor.
    - vm_compute. congruence. }
  split. { repeat constructor; vm_compute; intros; congruence. }
  split; [reflexivity|]. split; [vm_compute; reflexivity|]. vm_compute. tauto.
Qed.
Example C20_state_hypotheses_satisfiable :
  wf_data wU /\ has_sound wU /\
  st_run wU state_new (map SQuery [QBasic wA; QStorage wA 1; QBlockHash 300; QBlockHash 1; QBlockHash 600; QBlockHash 1; QHas wA])
  = [AInfo (Some (mkInfo 1 0 KECCAK_EMPTY)); AWord 7; AWord 0; AWord 0; AWord 0; AWord 0; ABool true].
Proof. destruct wU_wf as (H1 & H2 & _). split; [exact H1|]. split; [exact H2|]. vm_compute. reflexivity. Qed.
