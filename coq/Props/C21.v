(* C21 — contract creation collides with any address that already has code, a non-zero nonce
   or storage (EIP-7610), whatever database layer holds the storage.
   Model: Model/CreateCollision.v (make_create_frame / make_eofcreate_frame decision part +
   create_account_checkpoint + gas hand-back) and Model/Db.v (has_storage of the layers). *)
From stdpp Require Import gmap.
From RevmV Require Import Spec.DbSpec Model.Db Proofs.DbProofs Model.CreateCollision Proofs.CreateCollisionProofs.
Local Open Scope Z_scope.

(* given that the earlier checks pass (depth, EF00, funds, nonce overflow, precompile target):
   the create fails with CreateCollision iff the target has code, nonce or storage *)
Theorem C21_collision_iff_occupied :
  forall e, checks_pass e -> (p_res (make_create_frame e) = RCreateCollision <-> occupied e).
Proof. exact collision_iff. Qed.

(* a collision gives no gas back to the creator (all passed gas consumed), leaves the target's
   account exactly as it was, keeps the creator's nonce bump and moves no value *)
Theorem C21_collision_effects :
  forall e, p_res (make_create_frame e) = RCreateCollision ->
    gas_given_back (p_res (make_create_frame e)) (e_gas_limit e) = 0 /\
    p_target (make_create_frame e) = e_target e /\ p_target_created (make_create_frame e) = false /\
    t_nonce (p_caller (make_create_frame e)) = t_nonce (e_caller e) + 1 /\
    t_balance (p_caller (make_create_frame e)) = t_balance (e_caller e).
Proof. exact collision_effects. Qed.

(* combined with C20: if the data behind a CacheDB (wrapped data plus everything committed or
   inserted through it, after any history) holds a non-zero slot at the target, the create
   collides — through the &mut methods, the _ref methods and WrapDatabaseRef alike (they all
   answer has_storage_ref) *)
Theorem C21_collides_through_cachedb :
  forall (H : Z -> Z) (u : udb) (h : list op) (e : cenv) (t : Z),
    wf_data u -> has_sound u -> code_wf H u -> ops_ok H u u cache_new h -> checks_pass e ->
    p_has_storage (fold_left (fun s o => fst (spec_step s o)) h u) t = true ->
    e_has_storage e = has_storage_ref u (run_state u cache_new h) t ->
    p_res (make_create_frame e) = RCreateCollision.
Proof.
  intros H u h e t Hwf Hs Hcw Hok Hc Hp He.
  assert (forall h c s, R H u c s -> ops_ok H u s c h ->
            R H u (run_state u c h) (fold_left (fun s o => fst (spec_step s o)) h s)) as Hrun.
  { clear -Hwf Hs Hcw. induction h as [|o r IH]; intros c s HR Hok; [exact HR|]. destruct Hok as [Ho Hr].
    cbn [run_state fold_left]. apply IH; [|exact Hr]. eapply step_refines; eauto. }
  eapply cache_layer_collides; eauto. apply Hrun; [apply R_init; exact Hcw|exact Hok].
Qed.
(* ... and through State (freshly built over the data, after any reads): State forwards the
   wrapped database's answer *)
Theorem C21_state_forwards_has_storage :
  forall u qs t, wf_data u -> has_sound u ->
    st_has_storage u (st_after u state_new qs) t = u_has u t.
Proof. exact state_layer_has. Qed.

(* non-vacuity: an EIP-7610 target (no code, nonce 0, storage only) *)
Definition exEnv : cenv :=
  mkEnv 1 false (mkAcct 5 1000 KECCAK_EMPTY_) 10 false (mkAcct 0 3 KECCAK_EMPTY_) true true 100000.
Example C21_hypotheses_satisfiable :
  checks_pass exEnv /\ occupied exEnv /\ p_res (make_create_frame exEnv) = RCreateCollision /\
  p_res (make_create_frame (mkEnv 1 false (mkAcct 5 1000 KECCAK_EMPTY_) 10 false (mkAcct 0 3 KECCAK_EMPTY_) false true 100000)) = RStarted.
Proof. unfold checks_pass, occupied. vm_compute. intuition congruence. Qed.
