(* C13 — the gas meter never goes negative and failed charges change nothing.
   Only statements, closed by [exact]; proofs live in Proofs/GasProofs.v. *)
From RevmV Require Import Base.Word Model.Gas Proofs.GasProofs.
Local Open Scope Z_scope.

(* For every limit and every history within the frame-accounting contract: the run is defined
   (no u64/i64 overflow point is reached), remaining stays within [0, limit], limit is constant,
   spent = limit - remaining and fits u64. *)
Theorem C13_history_inv :
  forall (l : Z) (h : list gas_op) (g : gas),
    in_u64 l -> contract (gas_new l) h -> gas_run (gas_new l) h = Some g ->
    0 <= remaining g <= limit g /\ limit g = l /\ spent g = limit g - remaining g /\
    in_u64 (spent g).
Proof. exact history_inv. Qed.

Theorem C13_history_defined :
  forall (l : Z) (h : list gas_op),
    in_u64 l -> contract (gas_new l) h -> exists g, gas_run (gas_new l) h = Some g.
Proof. intros l h Hl. apply run_defined. apply gas_new_inv. exact Hl. Qed.

Theorem C13_failed_charge_changes_nothing :
  forall g c, snd (record_cost g c) = false -> fst (record_cost g c) = g /\ remaining g < c.
Proof. exact record_cost_fail. Qed.

Theorem C13_successful_charge_exact :
  forall g c, snd (record_cost g c) = true ->
    c <= remaining g /\ remaining (fst (record_cost g c)) = remaining g - c /\
    limit (fst (record_cost g c)) = limit g /\ refunded (fst (record_cost g c)) = refunded g.
Proof. exact record_cost_ok. Qed.

Theorem C13_charge_succeeds_iff :
  forall g c, snd (record_cost g c) = true <-> c <= remaining g.
Proof. exact record_cost_iff. Qed.

Theorem C13_final_refund :
  forall g (london : bool), gas_inv g -> 0 <= refunded g ->
    refunded (set_final_refund g london) =
    Z.min (refunded g) (spent g / (if london then 5 else 2)).
Proof. exact final_refund_nonneg. Qed.

Theorem C13_final_refund_negative_cast :
  forall g (london : bool), gas_inv g -> refunded g < 0 ->
    refunded (set_final_refund g london) = spent g / (if london then 5 else 2).
Proof. exact final_refund_negative. Qed.

(* non-vacuity: a concrete non-trivial history satisfies the contract *)
Example C13_contract_satisfiable :
  contract (gas_new 100000)
    [RecordCost 21000; RecordCost 90000; RecordRefund 4800; RecordCost 50000;
     EraseCost 30000; RecordRefund (-4800); RecordRefund 15000; SetFinalRefund true; SpendAll]
  /\ in_u64 100000.
Proof. vm_compute. intuition discriminate. Qed.
