(* C13 — the gas meter never goes negative and failed charges change nothing.
   Only statements, closed by [exact]; proofs live in Proofs/GasProofs.v. *)
From RevmV Require Import Base.Word Model.Gas Proofs.GasProofs.
Local Open Scope Z_scope.

(* For every limit and every history within the frame-accounting contract: the run is defined
   (no u64/i64 overflow point is reached), remaining stays within [0, limit], limit is constant,
   spent = limit - remaining and fits u64. *)
Theorem C13_history_inv :
  forall (l : Z) (h : list gas_op) (g : gas),
    in_u64 l -> contract (gas_new l) h -> gas_run (gas_new l) h = Some g ->
    0 <= remaining g <= limit g /\ limit g = l /\ spent g = limit g - remaining g /\
    in_u64 (spent g).
Proof. exact history_inv. Qed.

Theorem C13_history_defined :
  forall (l : Z) (h : list gas_op),
    in_u64 l -> contract (gas_new l) h -> exists g, gas_run (gas_new l) h = Some g.
Proof. intros l h Hl. apply run_defined. apply gas_new_inv. exact Hl. Qed.

Theorem C13_failed_charge_changes_nothing :
  forall g c, snd (record_cost g c) = false -> fst (record_cost g c) = g /\ remaining g < c.
Proof. exact record_cost_fail. Qed.

Theorem C13_successful_charge_exact :
  forall g c, snd (record_cost g c) = true ->
    c <= remaining g /\ remaining (fst (record_cost g c)) = remaining g - c /\
    limit (fst (record_cost g c)) = limit g /\ refunded (fst (record_cost g c)) = refunded g.
Proof. exact record_cost_ok. Qed.

Theorem C13_charge_succeeds_iff :
  forall g c, snd (record_cost g c) = true <-> c <= remaining g.
Proof. exact record_cost_iff. Qed.

Theorem C13_final_refund :
  forall g (london : bool), gas_inv g -> 0 <= refunded g ->
    refunded (set_final_refund g london) =
    Z.min (refunded g) (spent g / (if london then 5 else 2)).
Proof. exact final_refund_nonneg. Qed.

Theorem C13_final_refund_negative_cast :
  forall g (london : bool), gas_inv g -> refunded g < 0 ->
    refunded (set_final_refund g london) = spent g / (if london then 5 else 2).
Proof. exact final_refund_negative. Qed.

(* non-vacuity: a concrete non-trivial history satisfies the contract *)
Example C13_contract_satisfiable :
  contract (gas_new 100000)
    [RecordCost 21000; RecordCost 90000; RecordRefund 4800; RecordCost 50000;
     EraseCost 30000; RecordRefund (-4800); RecordRefund 15000; SetFinalRefund true; SpendAll]
  /\ in_u64 100000.
Proof. vm_compute. intuition discriminate. Qed.

(* ---- the invariant along the reference interpreter (Model/Step.v, Model/Evm.v; proofs in
   Proofs/EvmGasProofs.v).  The frame-accounting contract under which C13_history_inv is stated
   is not an assumption there: every meter the interpreter produces is inside the invariant. *)
From RevmV Require Import Model.Step Model.Evm Proofs.EvmGasProofs.

(* one instruction, whatever its outcome (continue, end — halts included —, call, create) *)
Theorem C13_interpreter_step_meter_invariant :
  forall W G F I G' x g',
    step W G F I = (G', x) -> sres_gas x = Some g' -> gas_inv (i_gas I) ->
    gas_inv g' /\ limit g' = limit (i_gas I) /\ remaining g' <= remaining (i_gas I).
Proof. exact step_meter_invariant. Qed.

(* a complete frame, through any nesting of calls and creates, for every result *)
Theorem C13_interpreter_meter_invariant :
  forall f W G F I G' r,
    exec f W G F I = XDone (G', r) -> gas_inv (i_gas I) ->
    gas_inv (ir_gas r) /\ limit (ir_gas r) = limit (i_gas I) /\
    remaining (ir_gas r) <= remaining (i_gas I).
Proof. exact exec_meter_invariant. Qed.

(* the result of a CALL / CREATE as the parent sees it (precompiles, early failures, code deposit) *)
Theorem C13_interpreter_call_result_invariant :
  forall f W G c G' r,
    do_call W (exec f W) G c = XDone (G', r) -> in_u64 (cq_gas_limit c) ->
    gas_inv (ir_gas r) /\ limit (ir_gas r) = cq_gas_limit c /\ remaining (ir_gas r) <= cq_gas_limit c.
Proof. exact do_call_meter_invariant. Qed.
Theorem C13_interpreter_create_result_invariant :
  forall f W G c G' r a,
    do_create W (exec f W) G c = XDone (G', r, a) -> in_u64 (kq_gas_limit c) ->
    gas_inv (ir_gas r) /\ limit (ir_gas r) = kq_gas_limit c /\ remaining (ir_gas r) <= kq_gas_limit c.
Proof. exact do_create_meter_invariant. Qed.

(* where the parent takes back the child's gas (insert_call_outcome / insert_create_outcome):
   the erase_cost is inside the contract [op_ok], the parent's meter is inside the invariant again
   and strictly below where it was before the instruction *)
Theorem C13_interpreter_call_outcome_within_contract :
  forall f W G F I G1 c I1 G2 r I2,
    gas_inv (i_gas I) ->
    step W G F I = (G1, SCall c I1) -> do_call W (exec f W) G1 c = XDone (G2, r) ->
    insert_call_outcome I1 c r = Some I2 ->
    (EvmProofs.okrev r = true -> op_ok (i_gas I1) (EraseCost (remaining (ir_gas r)))) /\
    gas_inv (i_gas I2) /\ limit (i_gas I2) = limit (i_gas I) /\ rem I2 < rem I.
Proof. exact call_outcome_within_contract. Qed.
Theorem C13_interpreter_create_outcome_within_contract :
  forall f W G F I G1 c I1 G2 r a I2,
    gas_inv (i_gas I) ->
    step W G F I = (G1, SCreate c I1) -> do_create W (exec f W) G1 c = XDone (G2, r, a) ->
    insert_create_outcome I1 r a = Some I2 ->
    (EvmProofs.okrev r = true -> op_ok (i_gas I1) (EraseCost (remaining (ir_gas r)))) /\
    gas_inv (i_gas I2) /\ limit (i_gas I2) = limit (i_gas I) /\ rem I2 < rem I.
Proof. exact create_outcome_within_contract. Qed.

(* non-vacuity: a frame of a concrete world run from a fresh meter *)
Example C13_interpreter_example :
  gas_inv (i_gas (istate_new 100000)) /\
  match do_call neg_world (exec 50 neg_world) neg_state neg_call2 with
  | XDone (_, r) => ir_gas r = mkGas 50000 49894 (-2000)
  | _ => False
  end.
Proof. split; [vm_compute; intuition discriminate|vm_compute; reflexivity]. Qed.
