(* C29 — inspector hooks are balanced and correctly nested.
   Only statements; proofs live in Proofs/InspectorProofs.v.
   Model: Model/Inspector.v (inspector_handle_register + run_the_loop over an abstract frame tree);
   grammar and monitor: Spec/InspectorSpec.v. *)
From Coq Require Import ZArith List Bool.
From RevmV Require Import Spec.InspectorSpec Model.Inspector Proofs.InspectorProofs.
Import ListNotations.
Local Open Scope Z_scope.

(* For every transaction tree and whatever the input stacks hold when it starts: no
   pop().unwrap() panics, the stacks are left exactly as found, and the hooks fired are the
   reference trace, in which every *_end carries the inputs of its own opener. *)
Theorem C29_model_emits_reference_trace :
  forall (x : tx) (s : stacks), transact x s = Some (s, spec_tx x).
Proof. exact transact_spec. Qed.

(* Any number of transactions on one Evm (the stacks live in the handler): empty at the end
   of each. *)
Theorem C29_input_stacks_empty_at_end :
  forall xs : list tx, transact_all xs empty_stacks = Some (empty_stacks, map spec_tx xs).
Proof. intro xs. apply transact_all_spec. Qed.

(* The loop written with the explicit call_stack of Evm::run_the_loop (one iteration per unit
   of fuel, frames pushed and popped, results inserted into the frame below) returns exactly
   what the recursive model returns, given the iterations the tree needs. *)
Theorem C29_explicit_call_stack_loop :
  forall (x : tx) (s : stacks),
    let fuel := match x with TxFrame _ _ f => iters f | _ => O end in
    match transact x s with
    | Some (s', t) => exists k, transact_loop fuel x s = Returned k s' t
    | None => transact_loop fuel x s = Panic
    end.
Proof. exact transact_loop_is_transact. Qed.

(* The emitted sequence of every transaction tree is one well-bracketed word. *)
Theorem C29_well_bracketed :
  forall (x : tx) (s s' : stacks) (t : list token),
    transact x s = Some (s', t) -> tx_wb t /\ s' = s.
Proof. exact transact_wb. Qed.

(* The boolean monitor accepts exactly the grammar. *)
Theorem C29_monitor_iff_grammar : forall l : list token, balanced l = true <-> tx_wb l.
Proof. exact balanced_iff. Qed.

Theorem C29_model_accepted_by_monitor :
  forall (x : tx) (s s' : stacks) (t : list token),
    transact x s = Some (s', t) -> balanced t = true.
Proof. intros x s s' t H. apply balanced_iff. exact (proj1 (transact_wb x s s' t H)). Qed.

(* LIFO with the same inputs is what the grammar says (close(k,i) closes the nearest open
   (k,i)); as a counting consequence every (kind, inputs) is opened and closed equally often. *)
Theorem C29_each_open_has_its_end :
  forall l, tx_wb l -> forall k i, count (is_open_of k i) l = count (is_close_of k i) l.
Proof. exact tx_wb_open_close. Qed.

(* Every executed instruction: exactly one step and one step_end; every journaled log: one
   log notification; every completed selfdestruct: one; one initialize_interp per frame. *)
Theorem C29_steps_logs_once :
  forall k i f,
    count is_step (spec_tx (TxFrame k i f)) = n_instr f /\
    count is_step_end (spec_tx (TxFrame k i f)) = n_instr f /\
    count is_log (spec_tx (TxFrame k i f)) = n_logs f /\
    count is_sd (spec_tx (TxFrame k i f)) = n_sd f /\
    count is_init (spec_tx (TxFrame k i f)) = 1 + n_frames f.
Proof. exact tx_counts. Qed.

(* In the grammar every step is followed at once by its step_end; a log / selfdestruct
   notification can only stand right after the step_end of one instruction (the LOG and
   SELFDESTRUCT wrappers are installed around the step wrapper), at most one per instruction: *)
Theorem C29_step_brackets_in_grammar :
  forall l, items l -> count is_step l = count is_step_end l.
Proof. exact items_steps. Qed.

(* ---- non-vacuity ---- *)
Definition ex_tree : tx :=
  TxFrame KCall 7
    (FInstr (FLog true (FSubFrame KCreate 8
               (FInstr (FSubNoFrame KCall 9 Immediate (FSubNoFrame KCall 9 ByInspector (FSd true FEnd))))
               (FSubFrame KCall 10 (FLog false (FInstr FEnd)) (FInstr FEnd))))).
Example C29_example_trace :
  transact ex_tree empty_stacks = Some (empty_stacks,
    [Call 7; TInitInterp; TStep; TStepEnd; TStep; TStepEnd; TLog;
     TStep; TStepEnd; Create 8; TInitInterp;
       TStep; TStepEnd; TStep; TStepEnd; Call 9; CallEnd 9; TStep; TStepEnd; Call 9; CallEnd 9;
       TStep; TStepEnd; TSelfDestruct; CreateEnd 8;
     TStep; TStepEnd; Call 10; TInitInterp; TStep; TStepEnd; TStep; TStepEnd; CallEnd 10;
     TStep; TStepEnd; CallEnd 7]).
Proof. vm_compute. reflexivity. Qed.
Example C29_example_loop :
  exists t, transact_loop 20 ex_tree empty_stacks = Returned KCall empty_stacks t /\ balanced t = true.
Proof. eexists. split; vm_compute; reflexivity. Qed.

(* the monitor rejects crossed brackets, a wrong id, a missing step_end, a stray log *)
Example C29_monitor_rejects :
  balanced [Call 1; TInitInterp; TStep; TStepEnd; Create 2; CallEnd 1; CreateEnd 2] = false /\
  balanced [Call 1; TInitInterp; TStep; TStepEnd; Call 2; CallEnd 3; TStep; TStepEnd; CallEnd 1] = false /\
  balanced [Call 1; TInitInterp; TStep; TStep; TStepEnd; CallEnd 1] = false /\
  balanced [Call 1; TInitInterp; TLog; TStep; TStepEnd; CallEnd 1] = false /\
  balanced [Call 1; TInitInterp; TStep; TStepEnd; TLog; TLog; CallEnd 1] = false /\
  balanced [Call 1; CallEnd 1; Call 1; CallEnd 1] = false /\
  balanced [Call 1; TInitInterp; TStep; TStepEnd; Call 2; CallEnd 2; TStep; TStepEnd; CallEnd 1] = true.
Proof. vm_compute. repeat split. Qed.
