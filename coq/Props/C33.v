(* C33 — Optimism fees: for non-deposit transactions the sender's debit equals the value moved
   plus what beneficiary, base-fee vault, L1-fee vault and operator-fee vault receive; deposits
   mint exactly their mint and persist mint and nonce increment when they fail.
   Only statements; proofs live in Proofs/OpFeesProofs.v.  The model (Model/OpFees.v) mirrors
   optimism/handler_register.rs + l1block.rs (operator fee) + the reused mainnet handlers; the L1
   cost [l1 t] is the value of calculate_tx_l1_cost (one cached value for all three uses). *)
From RevmV Require Import Base.Word Model.Gas Model.OpFees Model.L1Cost Proofs.OpFeesProofs Proofs.L1CostProofs.
Local Open Scope Z_scope.

(* Every non-deposit transaction (no mint: typed Optimism transaction) that passes
   preverify_transaction_inner, for every result of the top-level frame (class, gas left within
   the limit, refund counter), every price / base fee / L1 cost / operator scalar and constant
   (any 256-bit values), and balances whose sum fits 256 bits: the transaction executes (no
   panic), and with gu = gas used after the refund
     recipient   += value   (iff the frame returned ok)
     beneficiary += (price - basefee) * gu         price = min(max fee, basefee + priority fee)
     base vault  += basefee * gu
     L1 vault    += l1
     operator vault += operator_fee_charge(gu)
     sender's debit = the sum of these five, exactly; nonce + 1. *)
Theorem C33_regular_conservation :
  forall (t : optx) (f : fres) (s0 : ost),
    tx_wf t -> st_wf s0 -> is_deposit t = false -> mint t = None -> frame_ok t f ->
    preverify t s0 = 0 ->
    exists class gu gr s1,
      transact t f s0 = Executed class gu gr s1 /\ 0 <= gu <= gas_limit t /\
      let moved := if fclass f =? 0 then value t else 0 in
      let opfee := operator_fee_charge (spec t) (op_scalar t) (op_const t) gu in
      b_rcpt s1 = b_rcpt s0 + moved /\
      b_coinbase s1 = b_coinbase s0 + (price_1559 t - basefee t) * gu /\
      b_basev s1 = b_basev s0 + basefee t * gu /\
      b_l1v s1 = b_l1v s0 + l1 t /\
      b_opv s1 = b_opv s0 + opfee /\
      b_sender s0 - b_sender s1 =
        moved + (price_1559 t - basefee t) * gu + basefee t * gu + l1 t + opfee /\
      nonce s1 = Z.min (nonce s0 + 1) (pow64 - 1).
Proof. exact regular_conservation. Qed.

(* The rounding that makes the operator fee exact (the F11 repair): the refund is
   charge(limit) - charge(used) with both terms rounded the way they are charged, and charge is
   monotone, so what the sender keeps paying is charge(used) = what the vault receives.  Holds
   for arbitrary non-negative scalar / constant, including when saturating_mul / saturating_add
   inside operator_fee_charge saturate. *)
Theorem C33_operator_refund_rounding :
  forall sp s c (g : gas), 0 <= used g <= limit g -> 0 <= s -> 0 <= c ->
    operator_fee_charge sp s c (limit g) - operator_fee_refund sp s c g =
    operator_fee_charge sp s c (used g).
Proof. exact refund_exact. Qed.

(* With the ranges L1BlockInfo::try_fetch produces (u32 scalar, u64 constant) nothing in
   operator_fee_charge saturates: the vault receives floor(gas * scalar / 10^6) + constant. *)
Theorem C33_operator_fee_unbounded :
  forall sp s c a, 0 <= a < pow64 -> 0 <= s < 2 ^ 32 -> 0 <= c < pow64 ->
    operator_fee_charge sp s c a = if ISTHMUS <=? sp then a * s / 1000000 + c else 0.
Proof. exact charge_unbounded. Qed.

(* Before ISTHMUS the operator terms are 0. *)
Theorem C33_pre_isthmus_no_operator_fee :
  forall sp s c a, sp < ISTHMUS -> operator_fee_charge sp s c a = 0.
Proof. exact charge_pre_isthmus. Qed.

(* effective_gas_price adds basefee + priority fee with the wrapping "+": a transaction for which
   this wraps is rejected (GasPriceLessThanBasefee), so executed transactions pay the unbounded
   EIP-1559 price, between the base fee and the max fee. *)
Theorem C33_wrapping_price_rejected :
  forall t, tx_wf t -> is_deposit t = false -> validate_env t = 0 ->
    effective_gas_price t = price_1559 t /\ basefee t <= price_1559 t <= gas_price t.
Proof. exact valid_price. Qed.

(* Deposits (gas price 0, as deposit transactions have no fee fields) that pass pre-verification
   (gas_limit >= intrinsic gas / EIP-7623 floor — see the _refuted lemma below for the others):
   exactly [mint] is created on the sender, the value moves iff the execution returned ok, no
   beneficiary / vault is credited (no L1 fee, no operator fee, no gas fee), the nonce is bumped;
   from Regolith on a halt is reported as FailedDeposit (class 3) with the whole gas limit used,
   mint and nonce + 1 persisted; in Bedrock gas used = gas limit (0 for a successful system tx). *)
Theorem C33_deposit_mints :
  forall (t : optx) (f : fres) (s0 : ost),
    tx_wf t -> st_wf s0 -> is_deposit t = true -> gas_price t = 0 ->
    b_sender s0 + b_rcpt s0 + b_coinbase s0 + b_l1v s0 + b_basev s0 + b_opv s0 + opt0 (mint t) < pow256 ->
    frame_ok t f ->
    (fclass f =? 0 = true -> value t <= b_sender s0 + opt0 (mint t)) ->
    preverify t s0 = 0 ->
    exists class gu gr s1,
      transact t f s0 = Executed class gu gr s1 /\ (0 <= class <= 3) /\ 0 <= gu <= gas_limit t /\
      let moved := if class =? 3 then 0 else if fclass f =? 0 then value t else 0 in
      b_sender s1 = b_sender s0 + opt0 (mint t) - moved /\
      b_rcpt s1 = b_rcpt s0 + moved /\
      b_coinbase s1 = b_coinbase s0 /\ b_basev s1 = b_basev s0 /\ b_l1v s1 = b_l1v s0 /\
      b_opv s1 = b_opv s0 /\
      (is_call t = true \/ class = 3 \/ value t <= b_sender s0 + opt0 (mint t) ->
         nonce s1 = Z.min (nonce s0 + 1) (pow64 - 1)) /\
      (enabled (spec t) REGOLITH = true -> class <> 2 /\ (class = 3 -> gu = gas_limit t)) /\
      (enabled (spec t) REGOLITH = false ->
         class <> 3 /\ gu = if (fclass f =? 0) && is_system t then 0 else gas_limit t).
Proof. exact deposit_mints. Qed.

(* optimism::end on its own, for any deposit (any gas price) whose execution ended in an
   EVMError::Transaction: only the caller changes: + mint, nonce + 1. *)
Theorem C33_failed_deposit_persists :
  forall t s0, st_wf s0 -> (forall m, mint t = Some m -> 0 <= m) ->
    b_sender s0 + opt0 (mint t) < pow256 ->
    exists gu s1, failed_deposit t s0 = Executed 3 gu 0 s1 /\
      b_sender s1 = b_sender s0 + opt0 (mint t) /\ nonce s1 = Z.min (nonce s0 + 1) (pow64 - 1) /\
      b_rcpt s1 = b_rcpt s0 /\ b_coinbase s1 = b_coinbase s0 /\ b_l1v s1 = b_l1v s0 /\
      b_basev s1 = b_basev s0 /\ b_opv s1 = b_opv s0 /\
      gu = (if enabled (spec t) REGOLITH || negb (is_system t) then gas_limit t else 0).
Proof. exact failed_deposit_persists. Qed.

(* Known finding F-C33-1 (class C33-deposit-rejected-before-execution): the hypothesis
   [preverify t s0 = 0] of C33_deposit_mints cannot be dropped.  A deposit whose gas limit is
   below its intrinsic gas is returned as Err(CallGasCostMoreThanGasLimit) by
   preverify_transaction_inner, which leaves Evm::transact before post_execution.end runs:
   nothing is written, the mint of 1000 wei and the nonce increment are lost. *)
Definition fc33_1_tx : optx :=
  mkTx ECOTONE true (Some 1000) false true true 19901 0 None 100078069583 499604707781751669
       0 0 0 21000 0.
Definition fc33_1_st : ost := mkSt 5447324999133422906 423 1 8595401410277448238 1 0 950.
Theorem C33_deposit_below_intrinsic_gas_refuted :
  exists t f s0, is_deposit t = true /\ mint t = Some 1000 /\ tx_wf t /\ st_wf s0 /\
                 transact t f s0 = Invalid E_INTRINSIC.
Proof.
  exists fc33_1_tx, (mkFres 0 0 0 0), fc33_1_st. split; [reflexivity|]. split; [reflexivity|].
  split; [|split; [|reflexivity]].
  - constructor; cbn; unfold_pows; try lia; try (intros ? [= <-]; lia); try discriminate;
      try (split; [lia | first [reflexivity | discriminate]]).
  - constructor; cbn; unfold_pows; lia.
Qed.

(* Known finding F-C33-2 (class C33-bedrock-deposit-create-out-of-funds-nonce): the premise
   (call \/ FailedDeposit \/ value <= balance + mint) of the nonce clause of C33_deposit_mints cannot
   be dropped.  A Bedrock deposit that is a CREATE and cannot pay its value halts with OutOfFunds
   at make_create_frame's balance pre-check, before inc_nonce; before Regolith this halt is an
   ordinary result: the mint is persisted, the nonce increment is not. *)
Definition fc33_2_tx : optx :=
  mkTx BEDROCK true (Some 7538876656068323812) false true false 199419 0 None 239781862106
       13918908493739261107 0 0 0 53068 0.
Definition fc33_2_st : ost := mkSt 0 0 2527824196803604896 1 494 5612449976293675948 18446744073709551614.
Theorem C33_bedrock_deposit_create_out_of_funds_refuted :
  exists t f s0 gu gr s1, is_deposit t = true /\ is_call t = false /\ tx_wf t /\ st_wf s0 /\
    preverify t s0 = 0 /\ frame_ok t f /\
    transact t f s0 = Executed 2 gu gr s1 /\
    b_sender s1 = b_sender s0 + opt0 (mint t) /\ nonce s1 = nonce s0.
Proof.
  exists fc33_2_tx, (mkFres 1 2 146351 0), fc33_2_st. do 3 eexists.
  split; [reflexivity|]. split; [reflexivity|]. split; [|split; [|split; [reflexivity|split; [|split; [vm_compute; reflexivity|split; reflexivity]]]]].
  - constructor; cbn; unfold_pows; try lia; try (intros ? [= <-]; lia); try discriminate;
      try (split; [lia | first [reflexivity | discriminate]]).
  - constructor; cbn; unfold_pows; lia.
  - unfold frame_ok; cbn; unfold_pows; lia.
Qed.

(* The validation hypothesis of C33_regular_conservation cannot be dropped either: executing an
   unfunded transaction (as transact_preverified would) makes deduct_caller's saturating_sub lose
   the debit while the vaults are still credited: 150000 + 5000 + ... wei appear from nothing. *)
Definition unfunded_tx : optx :=
  mkTx ISTHMUS false None false true true 100000 1000 (Some 100) 700 0 5000 1000000 77 21000 21000.
Theorem C33_unvalidated_execution_creates_ether :
  exists t f s0 class gu gr s1, is_deposit t = false /\ preverify t s0 = E_FUNDS /\
    execute t f s0 = Executed class gu gr s1 /\
    b_sender s1 + b_rcpt s1 + b_coinbase s1 + b_l1v s1 + b_basev s1 + b_opv s1 >
    b_sender s0 + b_rcpt s0 + b_coinbase s0 + b_l1v s0 + b_basev s0 + b_opv s0.
Proof.
  exists unfunded_tx, (mkFres 0 0 60000 4800), (mkSt 0 0 0 0 0 0 0).
  do 4 eexists. split; [reflexivity|]. split; [reflexivity|]. split; [vm_compute; reflexivity|].
  vm_compute. reflexivity.
Qed.

(* non-vacuity: an ISTHMUS transaction with the F11 numbers (scalar 10^6, limit 100000, frame
   hands back 60000 gas and a 4800 refund) meets every hypothesis of C33_regular_conservation;
   gas used = 100000 - 60000 - 4800 = 35200, operator vault gets 35200 + 77 *)
Definition ex_tx : optx :=
  mkTx ISTHMUS false None false true true 100000 1000 (Some 100) 700 12345 5000 1000000 77 21000 21000.
Definition ex_st : ost := mkSt 1000000000 5 6 7 8 9 41.
Example C33_regular_hypotheses_satisfiable :
  tx_wf ex_tx /\ st_wf ex_st /\ is_deposit ex_tx = false /\ mint ex_tx = None /\
  frame_ok ex_tx (mkFres 0 0 60000 4800) /\ preverify ex_tx ex_st = 0 /\
  transact ex_tx (mkFres 0 0 60000 4800) ex_st =
    Executed 0 35200 4800
      (mkSt (1000000000 - 12345 - 800 * 35200 - 5000 - 35277) (5 + 12345) (6 + 100 * 35200)
            (7 + 5000) (8 + 700 * 35200) (9 + 35277) 42).
Proof.
  split; [|split; [|repeat split; try reflexivity; try (cbn; unfold_pows; lia)]].
  - constructor; cbn; unfold_pows; try lia; try (intros ? [= <-]; lia); try discriminate;
      try (split; [lia | first [reflexivity | discriminate]]).
  - constructor; cbn; unfold_pows; lia.
Qed.

(* non-vacuity for deposits: a Canyon deposit minting 10^18 that reverts *)
Definition ex_dep : optx :=
  mkTx CANYON true (Some 1000000000000000000) false false true 100000 0 None 700 12345 0 0 0 21000 0.
Example C33_deposit_hypotheses_satisfiable :
  tx_wf ex_dep /\ st_wf ex_st /\ is_deposit ex_dep = true /\ gas_price ex_dep = 0 /\
  frame_ok ex_dep (mkFres 1 1 60000 0) /\ preverify ex_dep ex_st = 0 /\
  transact ex_dep (mkFres 1 1 60000 0) ex_st =
    Executed 1 40000 0 (mkSt (1000000000 + 1000000000000000000) 5 6 7 8 9 42).
Proof.
  split; [|split; [|repeat split; try reflexivity; try (cbn; unfold_pows; lia)]].
  - constructor; cbn; unfold_pows; try lia; try (intros ? [= <-]; lia); try discriminate;
      try (split; [lia | first [reflexivity | discriminate]]).
  - constructor; cbn; unfold_pows; lia.
Qed.

(* ---------------------------------------------------------------------------------------------
   Second model (Model/L1Cost.v): try_fetch decoding and the arithmetic of calculate_tx_l1_cost
   (the FastLZ size estimate [e_est] stays an input). *)

(* whatever the L1Block storage holds, the modelled L1 cost is a 256-bit value: hypothesis wf_l1
   of C33_regular_conservation is met by the value the handler computes *)
Theorem C33_l1_cost_range :
  forall sp i e, info_nonneg i -> env_nonneg e -> 0 <= l1_cost sp i e < pow256.
Proof. exact l1_cost_range. Qed.

(* from ECOTONE on try_fetch yields 32-bit fee scalars and operator scalar, 64-bit operator
   constant, for any storage content: C33_operator_fee_unbounded applies to every fetched info *)
Theorem C33_fetched_scalar_ranges :
  forall sp s, enabled sp ECOTONE = true ->
    let i := try_fetch sp s in
    0 <= i_base_scalar i < 2 ^ 32 /\ 0 <= opt0z (i_blob_scalar i) < 2 ^ 32 /\
    0 <= opt0z (i_op_scalar i) < 2 ^ 32 /\ 0 <= opt0z (i_op_const i) < pow64.
Proof. exact try_fetch_scalar_ranges. Qed.

(* L1 fees below 2^128, envelopes below 2^32 bytes: nothing saturates and the cost is the
   specification's formula: Ecotone  calldataGas * (16*baseFee*baseFeeScalar + blobBaseFee*blobScalar) / 16e6,
   Fjord  estimatedSize * (same) / 1e12 *)
Theorem C33_l1_cost_formulas :
  forall sp i e,
    info_nonneg i -> env_nonneg e -> i_base_fee i < 2 ^ 128 -> i_base_scalar i < 2 ^ 32 ->
    opt0z (i_blob_fee i) < 2 ^ 128 -> opt0z (i_blob_scalar i) < 2 ^ 32 ->
    e_zeros e < 2 ^ 32 -> e_nonzeros e < 2 ^ 32 -> e_est e < pow64 ->
    e_skip e = false -> enabled sp ECOTONE = true -> i_empty_scalars i = false ->
    l1_cost sp i e =
      if enabled sp FJORD then e_est e * fee_unbounded i / 1000000000000
      else (e_zeros e * 4 + e_nonzeros e * 16) * fee_unbounded i / 16000000.
Proof. exact l1_cost_formulas. Qed.

(* non-vacuity: the unit test vector of l1block.rs (calculate_tx_l1_cost_ecotone): base fee 1000,
   scalars 1000 / 1000, blob base fee 1000, input 0xFACADE -> 51 *)
Example C33_l1_cost_ecotone_vector :
  let i := mkInfo 1000 None 1000 (Some 1000) (Some 1000) None None false in
  let e := mkEnv false 0 3 100000000 in
  info_nonneg i /\ env_nonneg e /\ l1_cost ECOTONE i e = 51 /\ l1_cost FJORD i e = 1700.
Proof. cbv zeta. unfold info_nonneg, env_nonneg. cbn. repeat split; try lia; reflexivity. Qed.
