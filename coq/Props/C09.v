(* C09 — gas used, refund and fees of an executed transaction.
   Only statements; proofs in Proofs/SettlementProofs.v. Model: Model/Settlement.v
   (deduct_caller_inner, last_frame_return, refund, EIP-7623 floor step, reimburse_caller,
   reward_beneficiary, output) over the gas meter of Model/Gas.v (C13) and the environment of
   Model/Envelope.v (C02).

   [validated spec e initial floor f auth b0 d c0] collects what holds when settlement runs:
   gas_limit is a u64 with initial <= gas_limit and floor <= gas_limit (validate_initial_tx_gas),
   the first frame hands back 0 <= remaining <= gas_limit - initial and a refund >= 0 (frame
   accounting, C13), the EIP-7702 refund is >= 0, prices satisfy 0 <= effective <= cap < 2^256 and
   basefee <= effective from LONDON (validate_tx), the sender holds
   gas_limit * cap + blob fee <= b0 < 2^256 (validate_tx_against_state), the execution moves the
   sender's balance by d without leaving [0, 2^256), the beneficiary holds c0 < 2^256.

   Interpretation (DESIGN.md note 6.2 and the EIP-7702 case agreed with it): the lower bound
   "intrinsic <= gas used" is stated on gas spent before the refund; "refund zero on revert or
   halt" and "a halted transaction uses its whole gas limit" hold apart from the EIP-7702
   authorization refund, which the execution-specs keep on failure as the code does. The literal
   readings are refuted by the two witness theorems at the end. *)
From RevmV Require Import Base.Word Model.Gas Model.Envelope Model.Settlement Proofs.SettlementProofs
  Spec.ValidSpec Model.TypedTx Proofs.EnvelopeProofs Proofs.BridgeProofs.
Local Open Scope Z_scope.

(* the settlement never reaches an overflow point and has this closed form *)
Theorem C09_settlement_closed_form :
  forall spec e initial floor f auth b0 d c0,
    validated spec e initial floor f auth b0 d c0 ->
    settle spec e floor f auth b0 d c0 =
    Some (mkSettle (mkGas (tx_gas_limit (e_tx e))
                          (tx_gas_limit (e_tx e) - used spec e floor f auth - refd spec e floor f auth)
                          (refd spec e floor f auth))
                   (used spec e floor f auth) (refd spec e floor f auth)
                   (b0 + d - (effective_gas_price e * used spec e floor f auth + blob_fee spec e))
                   (sat256 (c0 + wrap256 (tip spec e * used spec e floor f auth)))).
Proof. exact settle_closed. Qed.

(* intrinsic <= spent <= gas limit; gas used <= gas limit; floor <= gas used (floor = 0 before
   PRAGUE); 0 <= refund <= spent / q with q = 5 from LONDON, 2 before; gas used >= spent - spent/q;
   gas used = spent - refund unless the EIP-7623 floor applies, which also clears the refund *)
Theorem C09_gas_bounds :
  forall spec e initial floor f auth b0 d c0,
    validated spec e initial floor f auth b0 d c0 ->
    let spent := spent0 e f in let gl := tx_gas_limit (e_tx e) in
    let USED := used spec e floor f auth in let REFD := refd spec e floor f auth in
    let q := refund_quotient spec in
    initial <= spent <= gl /\ USED <= gl /\ floor <= USED /\ 0 <= REFD <= spent / q /\
    spent - spent / q <= USED /\
    (USED = spent - REFD \/ (USED = floor /\ REFD = 0 /\ spent - spent / q <= floor)).
Proof. exact gas_clauses. Qed.

Theorem C09_result_is_closed_form :
  forall spec e initial floor f auth b0 d c0,
    validated spec e initial floor f auth b0 d c0 ->
    exists st, settle spec e floor f auth b0 d c0 = Some st /\
      st_gas_used st = used spec e floor f auth /\ st_gas_refunded st = refd spec e floor f auth /\
      st_caller st = b0 + d - (effective_gas_price e * used spec e floor f auth + blob_fee spec e) /\
      st_coinbase st = sat256 (c0 + wrap256 (tip spec e * used spec e floor f auth)).
Proof. exact settle_defined. Qed.

(* on revert or halt the frame's refund is dropped: what remains is at most the EIP-7702 refund,
   hence zero for every transaction without one *)
Theorem C09_refund_on_revert_or_halt :
  forall spec e initial floor f auth b0 d c0,
    validated spec e initial floor f auth b0 d c0 -> f_class f <> FOk ->
    refd spec e floor f auth <= auth /\ (auth = 0 -> refd spec e floor f auth = 0) /\
    (refd spec e floor f auth = Z.min auth (spent0 e f / refund_quotient spec) \/ refd spec e floor f auth = 0).
Proof. exact refund_on_failure. Qed.

Theorem C09_halt_uses_whole_limit :
  forall spec e initial floor f auth b0 d c0,
    validated spec e initial floor f auth b0 d c0 -> f_class f = FHalt -> auth = 0 ->
    used spec e floor f auth = tx_gas_limit (e_tx e) /\ refd spec e floor f auth = 0.
Proof. exact halt_uses_limit. Qed.

Theorem C09_halt_with_7702_refund :
  forall spec e initial floor f auth b0 d c0,
    validated spec e initial floor f auth b0 d c0 -> f_class f = FHalt ->
    used spec e floor f auth =
    Z.max floor (tx_gas_limit (e_tx e) - Z.min auth (tx_gas_limit (e_tx e) / refund_quotient spec)).
Proof. exact halt_general. Qed.

(* the sender pays exactly effective gas price * gas used + blob fee (the balance movement d of
   the execution itself aside), without underflow or overflow *)
Theorem C09_sender_pays_exactly :
  forall spec e initial floor f auth b0 d c0 st,
    validated spec e initial floor f auth b0 d c0 ->
    settle spec e floor f auth b0 d c0 = Some st ->
    st_caller st - b0 = d - (effective_gas_price e * st_gas_used st + blob_fee spec e) /\
    in_u256 (st_caller st).
Proof. intros spec e initial floor f auth b0 d c0 st V. exact (sender_pays _ _ _ _ _ _ _ _ _ V st). Qed.

(* the beneficiary receives exactly (effective price - base fee) * gas used from LONDON and
   effective price * gas used before; the product never wraps; the credit saturates only when the
   beneficiary's balance would pass 2^256 *)
Theorem C09_beneficiary_receives_exactly :
  forall spec e initial floor f auth b0 d c0 st,
    validated spec e initial floor f auth b0 d c0 ->
    settle spec e floor f auth b0 d c0 = Some st ->
    0 <= tip spec e * st_gas_used st < pow256 /\
    (c0 + tip spec e * st_gas_used st < pow256 -> st_coinbase st - c0 = tip spec e * st_gas_used st) /\
    (pow256 <= c0 + tip spec e * st_gas_used st -> st_coinbase st = pow256 - 1).
Proof. intros spec e initial floor f auth b0 d c0 st V. exact (beneficiary_receives _ _ _ _ _ _ _ _ _ V st). Qed.

Theorem C09_tip_definition :
  forall spec e, tip spec e = if enabled spec LONDON then effective_gas_price e - b_basefee (e_block e)
                              else effective_gas_price e.
Proof. reflexivity. Qed.

(* where the bounds come from: a typed transaction that passed the validation pipeline (C02)
   satisfies the gas, price and balance fields of [validated] (with b0 = the sender's balance);
   the frame fields come from the frame accounting (C13) and stay hypotheses *)
Theorem C09_validation_establishes_bounds :
  forall spec c b t s,
    wf_cfg c -> wf_block b -> wf_tx t -> wf_sender s -> in_domain spec t ->
    let e := mkEnv c b (to_tx_env t) in
    preverify spec e s = VOk ->
    let gl := tx_gas_limit (e_tx e) in
    in_u64 gl /\
    0 <= fst (initial_and_floor spec e) <= gl /\
    (enabled spec PRAGUE = true -> 0 <= snd (initial_and_floor spec e) <= gl) /\
    0 <= effective_gas_price e <= tx_gas_price (e_tx e) /\ in_u256 (tx_gas_price (e_tx e)) /\
    0 <= b_basefee b /\
    (enabled spec LONDON = true -> b_basefee b <= effective_gas_price e) /\
    (enabled spec CANCUN = true -> exists fee, calc_data_fee e = Some fee /\ 0 <= fee) /\
    gl * tx_gas_price (e_tx e)
      + (if enabled spec CANCUN then match calc_data_fee e with Some fee => fee | None => 0 end else 0)
      <= s_balance s < pow256.
Proof. exact validation_establishes_bounds. Qed.

(* the literal readings fail, in the execution specification as in the code *)
Theorem C09_literal_intrinsic_le_gas_used_refuted :
  exists spec e initial floor f auth b0 d c0 st,
    validated spec e initial floor f auth b0 d c0 /\
    settle spec e floor f auth b0 d c0 = Some st /\ st_gas_used st < initial.
Proof. exact literal_intrinsic_le_used_refuted. Qed.

Theorem C09_literal_halt_uses_limit_refuted_for_7702 :
  exists e initial floor f auth b0 d c0 st,
    validated PRAGUE e initial floor f auth b0 d c0 /\ f_class f = FHalt /\
    settle PRAGUE e floor f auth b0 d c0 = Some st /\
    st_gas_used st < tx_gas_limit (e_tx e) /\ 0 < st_gas_refunded st.
Proof. exact literal_halt_uses_limit_refuted_7702. Qed.

(* non-vacuity: a LONDON transaction with a refund, a PRAGUE blob transaction hitting the floor *)
Example C09_validated_satisfiable :
  validated LONDON (mkEnv (mainnet_cfg 1) (mkBlock 30000000 7 true (Some 1))
                          (mkTx 100000 20 false 0 [] (Some 0) (Some 1) [] (Some 2) [] None None))
            21000 0 (mkFrame FOk 40000 9600) 0 (10 ^ 18) 0 5 /\
  settle LONDON (mkEnv (mainnet_cfg 1) (mkBlock 30000000 7 true (Some 1))
                       (mkTx 100000 20 false 0 [] (Some 0) (Some 1) [] (Some 2) [] None None))
         0 (mkFrame FOk 40000 9600) 0 (10 ^ 18) 0 5
  = Some (mkSettle (mkGas 100000 40000 9600) 50400 9600 (10 ^ 18 - 9 * 50400) (5 + 2 * 50400)).
Proof.
  split; [|vm_compute; reflexivity].
  constructor; try (vm_compute; intuition discriminate).
Qed.

(* ================================================================================================
   Composition with the reference interpreter (C01) and the gas meter (C13): the hypotheses of the
   theorems above that speak about the EXECUTION are theorems about [run_tx] (Model/Evm.v:
   transact_preverified_inner with the first frame executed by the interpreter of Model/Step.v).
   Proofs in Proofs/EvmGasProofs.v.

   [tx_gas_ok W]: gas_limit is a u64, 0 <= intrinsic <= gas_limit, 0 <= floor <= gas_limit — what
   validate_initial_tx_gas establishes (C09_interpreter_gas_hypotheses_from_validation).
   [first_frame f W]: run_tx cut after the first frame (load_access_list, deduct_caller,
   apply_eip7702_auth_list, make_call_frame / make_create_frame, the frame's execution);
   [tx_auth_refund W]: the EIP-7702 refund that run_tx hands to post_execution::refund.
   [frame_class (tr_reason tr)]: the class last_frame_return gives to the result of the first
   frame (return_ok! / return_revert! / anything else).

   None of the C09_interpreter_* gas theorems has a hypothesis about the frame result. *)
From RevmV Require Import Model.Step Model.Evm Proofs.EvmGasProofs.

(* the frame result that reaches last_frame_return: its meter satisfies the C13 invariant, has
   the limit gas_limit - intrinsic, hands back 0 <= remaining <= gas_limit - intrinsic, and the
   refund counter that post_execution::refund forms from it is an i64 *)
Theorem C09_interpreter_frame_result_bounds :
  forall f W tr, run_tx f W = XDone tr -> tx_gas_ok W ->
  exists G3 r cr,
    first_frame f W = XDone (G3, r, cr) /\ tr_reason tr = ir_res r /\
    Gas.gas_inv (ir_gas r) /\ Gas.limit (ir_gas r) = tx_limit W - tx_initial W /\
    0 <= Gas.remaining (ir_gas r) <= tx_limit W - tx_initial W /\
    (frame_class (ir_res r) = FOk -> in_i64 (Gas.refunded (ir_gas r) + tx_auth_refund W)) /\
    0 <= tx_auth_refund W.
Proof. exact run_tx_frame_bounds. Qed.

(* the property's gas clauses for the numbers run_tx reports, for every world, program, hardfork
   and fuel: intrinsic <= spent <= gas limit (spent = gas limit when the frame halts);
   0 <= gas used <= gas limit; floor <= gas used; 0 <= refund <= spent / q (q = 5 from LONDON,
   2 before); gas used >= spent - spent / q >= intrinsic - intrinsic / q; gas used = spent - refund
   unless the EIP-7623 floor applies, which also clears the refund.  The exact relation between
   intrinsic gas and gas used is the last three clauses: intrinsic <= gas used + refund, or the
   floor applies (C09_literal_intrinsic_le_gas_used_refuted shows that no more holds).
   No sign assumption on the frame's refund counter: a negative counter is cast to u64 and the
   cap wins (C13_final_refund_negative_cast). *)
Theorem C09_interpreter_gas_bounds :
  forall f W tr, run_tx f W = XDone tr -> tx_gas_ok W ->
  exists spent,
    tx_initial W <= spent <= tx_limit W /\
    (frame_class (tr_reason tr) = FHalt -> spent = tx_limit W) /\
    0 <= tr_gas_used tr <= tx_limit W /\ tx_floor W <= tr_gas_used tr /\
    0 <= tr_gas_refunded tr <= spent / refund_quotient (w_spec W) /\
    spent - spent / refund_quotient (w_spec W) <= tr_gas_used tr /\
    tx_initial W - tx_initial W / refund_quotient (w_spec W) <= tr_gas_used tr /\
    (tr_gas_used tr = spent - tr_gas_refunded tr \/
     (tr_gas_used tr = tx_floor W /\ tr_gas_refunded tr = 0 /\
      spent - spent / refund_quotient (w_spec W) <= tx_floor W)).
Proof. exact run_tx_gas_bounds. Qed.

(* C09_refund_on_revert_or_halt for run_tx: when the first frame does not end ok the reported
   refund is at most the EIP-7702 refund, hence zero without one *)
Theorem C09_interpreter_refund_on_revert_or_halt :
  forall f W tr, run_tx f W = XDone tr -> tx_gas_ok W ->
    frame_class (tr_reason tr) <> FOk ->
    tr_gas_refunded tr <= tx_auth_refund W /\ (tx_auth_refund W = 0 -> tr_gas_refunded tr = 0).
Proof. exact run_tx_refund_on_failure. Qed.

(* C09_halt_uses_whole_limit / C09_halt_with_7702_refund for run_tx *)
Theorem C09_interpreter_halt_uses_whole_limit :
  forall f W tr, run_tx f W = XDone tr -> tx_gas_ok W ->
    frame_class (tr_reason tr) = FHalt ->
    tr_gas_used tr = Z.max (tx_floor W)
                       (tx_limit W - Z.min (tx_auth_refund W) (tx_limit W / refund_quotient (w_spec W))) /\
    (tx_auth_refund W = 0 -> tr_gas_used tr = tx_limit W /\ tr_gas_refunded tr = 0).
Proof. exact run_tx_halt. Qed.

(* the EIP-7702 refund: never negative; none without an authorization list or before PRAGUE *)
Theorem C09_interpreter_7702_refund :
  forall W, 0 <= tx_auth_refund W /\
    (w_auth_list W = [] \/ en (w_spec W) E.PRAGUE = false -> tx_auth_refund W = 0).
Proof. intros W. split; [apply tx_auth_refund_nonneg|apply tx_auth_refund_none]. Qed.

(* the reported class (SuccessOrHalt::from) against the class last_frame_return uses: success is
   return_ok!, revert is return_revert!; a Halt result is in neither macro except for
   CallTooDeep / OutOfFunds (return_revert! results that are reported as Halt — not reachable for
   the first frame of a validated transaction) and the internal codes 0, 4, 21 *)
Theorem C09_interpreter_result_class :
  forall f W tr, run_tx f W = XDone tr ->
    (tr_class tr = 0 -> frame_class (tr_reason tr) = FOk) /\
    (tr_class tr = 1 -> frame_class (tr_reason tr) = FRevert) /\
    (tr_class tr = 2 -> tr_reason tr <> 0 -> tr_reason tr <> 4 -> tr_reason tr <> R_CallTooDeep ->
     tr_reason tr <> R_OutOfFunds -> tr_reason tr <> 21 -> frame_class (tr_reason tr) = FHalt).
Proof. exact run_tx_class. Qed.

(* [validated] for run_tx.  A record that holds for the trivial frame result (that is: the
   gas-limit, price, balance and beneficiary fields v_gl v_initial v_floor v_price v_cap v_basefee
   v_london v_blob v_balance v_delta v_coinbase, which do not speak about the frame; the first nine
   follow from validation by C09_validation_establishes_bounds) holds for the frame result run_tx
   hands to the settlement and for its EIP-7702 refund: v_rem, v_auth and v_counter are derived.
   The reported gas_used / gas_refunded are then the closed form of C09_settlement_closed_form, so
   every theorem above applies to run_tx.
   Not derived: v_fref for a frame that ends ok, i.e. [top_refund_nonneg] (the refund counter of
   the FIRST frame is not negative).  It is not a consequence of frame accounting — see
   C09_interpreter_frame_refund_nonneg_refuted — but of the SSTORE refund schedule over a whole
   transaction.  (The refund of a frame that does not end ok is never read: [frame_of_norm].)
   v_delta (the execution moves the sender's balance by d inside [0, 2^256)) stays a parameter. *)
Theorem C09_interpreter_establishes_validated :
  forall f W tr b0 d c0,
    run_tx f W = XDone tr -> top_refund_nonneg f W ->
    validated (w_spec W) (w_env W) (tx_initial W) (tx_floor W) (mkFrame FHalt 0 0) 0 b0 d c0 ->
    exists G3 r cr,
      first_frame f W = XDone (G3, r, cr) /\ tr_reason tr = ir_res r /\
      let fr := frame_of_norm r in let auth := tx_auth_refund W in
      validated (w_spec W) (w_env W) (tx_initial W) (tx_floor W) fr auth b0 d c0 /\
      f_class fr = frame_class (tr_reason tr) /\
      tr_gas_used tr = used (w_spec W) (w_env W) (tx_floor W) fr auth /\
      tr_gas_refunded tr = refd (w_spec W) (w_env W) (tx_floor W) fr auth.
Proof. exact run_tx_validated. Qed.

(* [tx_gas_ok] from the validation pipeline (C02) *)
Theorem C09_interpreter_gas_hypotheses_from_validation :
  forall W c b t s,
    wf_cfg c -> wf_block b -> wf_tx t -> wf_sender s -> in_domain (w_spec W) t ->
    w_env W = mkEnv c b (to_tx_env t) ->
    preverify (w_spec W) (w_env W) s = VOk -> tx_gas_ok W.
Proof. exact tx_gas_ok_of_validation. Qed.

(* "refund >= 0" is false for frames in general: CANCUN, 0x1000 has cleared its slot 0 (original
   value 1, refund +4800 in that frame); a DELEGATECALL frame then sets the slot back to 1 and ends
   ok with the refund counter -4800 + 2800 = -2000 *)
Theorem C09_interpreter_frame_refund_nonneg_refuted :
  exists f W G c G' r,
    do_call W (exec f W) G c = XDone (G', r) /\ is_ok (ir_res r) = true /\ Gas.refunded (ir_gas r) < 0.
Proof. exact frame_refund_nonneg_refuted. Qed.

(* non-vacuity: the CANCUN world of that witness as a transaction (0x1000 clears a slot: refund
   4800 capped at spent / 5) meets every hypothesis used above, and run_tx reports the closed form *)
Example C09_interpreter_hypotheses_satisfiable :
  tx_gas_ok neg_world /\ top_refund_nonneg 200 neg_world /\
  validated (w_spec neg_world) (w_env neg_world) (tx_initial neg_world) (tx_floor neg_world)
            (mkFrame FHalt 0 0) 0 (10 ^ 30) 0 0 /\
  match run_tx 200 neg_world with
  | XDone tr => tr_class tr = 0 /\ tr_gas_used tr = 26006 - 4800 /\ tr_gas_refunded tr = 4800
  | _ => False
  end.
Proof.
  split; [vm_compute; intuition discriminate|].
  split; [apply top_refund_nonneg_by_run; vm_compute; reflexivity|].
  split.
  { constructor; try (vm_compute; intuition discriminate).
    intros _. vm_compute. eexists. split; [reflexivity|discriminate]. }
  vm_compute. repeat split; reflexivity.
Qed.

(* a halting first frame (INVALID 0xfe): the whole limit is used, nothing is refunded.  And why
   the halt clause is stated on the class last_frame_return uses rather than on the reported
   class: a world that would NOT pass validate_tx_against_state (value above the balance) makes
   the first frame end with OutOfFunds — a return_revert! result whose gas is handed back — which
   SuccessOrHalt reports as Halt: class 2 with gas_used = intrinsic gas only *)
Definition halt_world : world :=
  mkW 17 (E.mkEnv (E.mainnet_cfg 1) (E.mkBlock (2^256-1) 0 true (Some 1))
                  (E.mkTx 200000 1 false 0 [] (Some 7) None [] None [] None None))
      0xCA11E4 (Some 0x1000) 0 [] [] [] [] 0xC01BBA5E 100 1700000000 0 0x1234
      [(0x1000, (0, 1, 77)); (0xCA11E4, (10^30, 7, 0))] [] [(77, [0xfe])] [].
Definition unfunded_world : world :=
  mkW 17 (E.mkEnv (E.mainnet_cfg 1) (E.mkBlock (2^256-1) 0 true (Some 1))
                  (E.mkTx 200000 1 false 0 [] (Some 7) None [] None [] None None))
      0xCA11E4 (Some 0x1000) (10^31) [] [] [] [] 0xC01BBA5E 100 1700000000 0 0x1234
      [(0x1000, (0, 1, 77)); (0xCA11E4, (10^30, 7, 0))] [] [(77, [0xfe])] [].
Example C09_interpreter_halt_examples :
  tx_gas_ok halt_world /\
  match run_tx 200 halt_world with
  | XDone tr => tr_class tr = 2 /\ frame_class (tr_reason tr) = FHalt /\
                tr_gas_used tr = tx_limit halt_world /\ tr_gas_refunded tr = 0
  | _ => False
  end /\
  match run_tx 200 unfunded_world with
  | XDone tr => tr_class tr = 2 /\ tr_reason tr = R_OutOfFunds /\ frame_class (tr_reason tr) = FRevert /\
                tr_gas_used tr = tx_initial unfunded_world
  | _ => False
  end.
Proof.
  split; [vm_compute; intuition discriminate|].
  split; vm_compute; repeat split; reflexivity.
Qed.
