(* C09 — gas used, refund and fees of an executed transaction.
   Only statements; proofs in Proofs/SettlementProofs.v. Model: Model/Settlement.v
   (deduct_caller_inner, last_frame_return, refund, EIP-7623 floor step, reimburse_caller,
   reward_beneficiary, output) over the gas meter of Model/Gas.v (C13) and the environment of
   Model/Envelope.v (C02).

   [validated spec e initial floor f auth b0 d c0] collects what holds when settlement runs:
   gas_limit is a u64 with initial <= gas_limit and floor <= gas_limit (validate_initial_tx_gas),
   the first frame hands back 0 <= remaining <= gas_limit - initial and a refund >= 0 (frame
   accounting, C13), the EIP-7702 refund is >= 0, prices satisfy 0 <= effective <= cap < 2^256 and
   basefee <= effective from LONDON (validate_tx), the sender holds
   gas_limit * cap + blob fee <= b0 < 2^256 (validate_tx_against_state), the execution moves the
   sender's balance by d without leaving [0, 2^256), the beneficiary holds c0 < 2^256.

   Interpretation (DESIGN.md note 6.2 and the EIP-7702 case agreed with it): the lower bound
   "intrinsic <= gas used" is stated on gas spent before the refund; "refund zero on revert or
   halt" and "a halted transaction uses its whole gas limit" hold apart from the EIP-7702
   authorization refund, which the execution-specs keep on failure as the code does. The literal
   readings are refuted by the two witness theorems at the end. *)
From RevmV Require Import Base.Word Model.Gas Model.Envelope Model.Settlement Proofs.SettlementProofs
  Spec.ValidSpec Model.TypedTx Proofs.EnvelopeProofs Proofs.BridgeProofs.
Local Open Scope Z_scope.

(* the settlement never reaches an overflow point and has this closed form *)
Theorem C09_settlement_closed_form :
  forall spec e initial floor f auth b0 d c0,
    validated spec e initial floor f auth b0 d c0 ->
    settle spec e floor f auth b0 d c0 =
    Some (mkSettle (mkGas (tx_gas_limit (e_tx e))
                          (tx_gas_limit (e_tx e) - used spec e floor f auth - refd spec e floor f auth)
                          (refd spec e floor f auth))
                   (used spec e floor f auth) (refd spec e floor f auth)
                   (b0 + d - (effective_gas_price e * used spec e floor f auth + blob_fee spec e))
                   (sat256 (c0 + wrap256 (tip spec e * used spec e floor f auth)))).
Proof. exact settle_closed. Qed.

(* intrinsic <= spent <= gas limit; gas used <= gas limit; floor <= gas used (floor = 0 before
   PRAGUE); 0 <= refund <= spent / q with q = 5 from LONDON, 2 before; gas used >= spent - spent/q;
   gas used = spent - refund unless the EIP-7623 floor applies, which also clears the refund *)
Theorem C09_gas_bounds :
  forall spec e initial floor f auth b0 d c0,
    validated spec e initial floor f auth b0 d c0 ->
    let spent := spent0 e f in let gl := tx_gas_limit (e_tx e) in
    let USED := used spec e floor f auth in let REFD := refd spec e floor f auth in
    let q := refund_quotient spec in
    initial <= spent <= gl /\ USED <= gl /\ floor <= USED /\ 0 <= REFD <= spent / q /\
    spent - spent / q <= USED /\
    (USED = spent - REFD \/ (USED = floor /\ REFD = 0 /\ spent - spent / q <= floor)).
Proof. exact gas_clauses. Qed.

Theorem C09_result_is_closed_form :
  forall spec e initial floor f auth b0 d c0,
    validated spec e initial floor f auth b0 d c0 ->
    exists st, settle spec e floor f auth b0 d c0 = Some st /\
      st_gas_used st = used spec e floor f auth /\ st_gas_refunded st = refd spec e floor f auth /\
      st_caller st = b0 + d - (effective_gas_price e * used spec e floor f auth + blob_fee spec e) /\
      st_coinbase st = sat256 (c0 + wrap256 (tip spec e * used spec e floor f auth)).
Proof. exact settle_defined. Qed.

(* on revert or halt the frame's refund is dropped: what remains is at most the EIP-7702 refund,
   hence zero for every transaction without one *)
Theorem C09_refund_on_revert_or_halt :
  forall spec e initial floor f auth b0 d c0,
    validated spec e initial floor f auth b0 d c0 -> f_class f <> FOk ->
    refd spec e floor f auth <= auth /\ (auth = 0 -> refd spec e floor f auth = 0) /\
    (refd spec e floor f auth = Z.min auth (spent0 e f / refund_quotient spec) \/ refd spec e floor f auth = 0).
Proof. exact refund_on_failure. Qed.

Theorem C09_halt_uses_whole_limit :
  forall spec e initial floor f auth b0 d c0,
    validated spec e initial floor f auth b0 d c0 -> f_class f = FHalt -> auth = 0 ->
    used spec e floor f auth = tx_gas_limit (e_tx e) /\ refd spec e floor f auth = 0.
Proof. exact halt_uses_limit. Qed.

Theorem C09_halt_with_7702_refund :
  forall spec e initial floor f auth b0 d c0,
    validated spec e initial floor f auth b0 d c0 -> f_class f = FHalt ->
    used spec e floor f auth =
    Z.max floor (tx_gas_limit (e_tx e) - Z.min auth (tx_gas_limit (e_tx e) / refund_quotient spec)).
Proof. exact halt_general. Qed.

(* the sender pays exactly effective gas price * gas used + blob fee (the balance movement d of
   the execution itself aside), without underflow or overflow *)
Theorem C09_sender_pays_exactly :
  forall spec e initial floor f auth b0 d c0 st,
    validated spec e initial floor f auth b0 d c0 ->
    settle spec e floor f auth b0 d c0 = Some st ->
    st_caller st - b0 = d - (effective_gas_price e * st_gas_used st + blob_fee spec e) /\
    in_u256 (st_caller st).
Proof. intros spec e initial floor f auth b0 d c0 st V. exact (sender_pays _ _ _ _ _ _ _ _ _ V st). Qed.

(* the beneficiary receives exactly (effective price - base fee) * gas used from LONDON and
   effective price * gas used before; the product never wraps; the credit saturates only when the
   beneficiary's balance would pass 2^256 *)
Theorem C09_beneficiary_receives_exactly :
  forall spec e initial floor f auth b0 d c0 st,
    validated spec e initial floor f auth b0 d c0 ->
    settle spec e floor f auth b0 d c0 = Some st ->
    0 <= tip spec e * st_gas_used st < pow256 /\
    (c0 + tip spec e * st_gas_used st < pow256 -> st_coinbase st - c0 = tip spec e * st_gas_used st) /\
    (pow256 <= c0 + tip spec e * st_gas_used st -> st_coinbase st = pow256 - 1).
Proof. intros spec e initial floor f auth b0 d c0 st V. exact (beneficiary_receives _ _ _ _ _ _ _ _ _ V st). Qed.

Theorem C09_tip_definition :
  forall spec e, tip spec e = if enabled spec LONDON then effective_gas_price e - b_basefee (e_block e)
                              else effective_gas_price e.
Proof. reflexivity. Qed.

(* where the bounds come from: a typed transaction that passed the validation pipeline (C02)
   satisfies the gas, price and balance fields of [validated] (with b0 = the sender's balance);
   the frame fields come from the frame accounting (C13) and stay hypotheses *)
Theorem C09_validation_establishes_bounds :
  forall spec c b t s,
    wf_cfg c -> wf_block b -> wf_tx t -> wf_sender s -> in_domain spec t ->
    let e := mkEnv c b (to_tx_env t) in
    preverify spec e s = VOk ->
    let gl := tx_gas_limit (e_tx e) in
    in_u64 gl /\
    0 <= fst (initial_and_floor spec e) <= gl /\
    (enabled spec PRAGUE = true -> 0 <= snd (initial_and_floor spec e) <= gl) /\
    0 <= effective_gas_price e <= tx_gas_price (e_tx e) /\ in_u256 (tx_gas_price (e_tx e)) /\
    0 <= b_basefee b /\
    (enabled spec LONDON = true -> b_basefee b <= effective_gas_price e) /\
    (enabled spec CANCUN = true -> exists fee, calc_data_fee e = Some fee /\ 0 <= fee) /\
    gl * tx_gas_price (e_tx e)
      + (if enabled spec CANCUN then match calc_data_fee e with Some fee => fee | None => 0 end else 0)
      <= s_balance s < pow256.
Proof. exact validation_establishes_bounds. Qed.

(* the literal readings fail, in the execution specification as in the code *)
Theorem C09_literal_intrinsic_le_gas_used_refuted :
  exists spec e initial floor f auth b0 d c0 st,
    validated spec e initial floor f auth b0 d c0 /\
    settle spec e floor f auth b0 d c0 = Some st /\ st_gas_used st < initial.
Proof. exact literal_intrinsic_le_used_refuted. Qed.

Theorem C09_literal_halt_uses_limit_refuted_for_7702 :
  exists e initial floor f auth b0 d c0 st,
    validated PRAGUE e initial floor f auth b0 d c0 /\ f_class f = FHalt /\
    settle PRAGUE e floor f auth b0 d c0 = Some st /\
    st_gas_used st < tx_gas_limit (e_tx e) /\ 0 < st_gas_refunded st.
Proof. exact literal_halt_uses_limit_refuted_7702. Qed.

(* non-vacuity: a LONDON transaction with a refund, a PRAGUE blob transaction hitting the floor *)
Example C09_validated_satisfiable :
  validated LONDON (mkEnv (mainnet_cfg 1) (mkBlock 30000000 7 true (Some 1))
                          (mkTx 100000 20 false 0 [] (Some 0) (Some 1) [] (Some 2) [] None None))
            21000 0 (mkFrame FOk 40000 9600) 0 (10 ^ 18) 0 5 /\
  settle LONDON (mkEnv (mainnet_cfg 1) (mkBlock 30000000 7 true (Some 1))
                       (mkTx 100000 20 false 0 [] (Some 0) (Some 1) [] (Some 2) [] None None))
         0 (mkFrame FOk 40000 9600) 0 (10 ^ 18) 0 5
  = Some (mkSettle (mkGas 100000 40000 9600) 50400 9600 (10 ^ 18 - 9 * 50400) (5 + 2 * 50400)).
Proof.
  split; [|vm_compute; reflexivity].
  constructor; try (vm_compute; intuition discriminate).
Qed.
