(* C10 — a static call cannot change state.
   Table part (finite, by computation over Gen/StaticGate.v reflected from the compiled code) and
   model part (all frame trees, by induction).  Proofs in Proofs/StaticProofs.v. *)
From Coq Require Import ZArith List Bool.
From RevmV Require Import Gen.StaticGate Spec.GateSpec Spec.StaticSpec Proofs.GateProofs
  Model.StaticFrame Proofs.StaticProofs.
Import ListNotations.
Local Open Scope Z_scope.

(* For every hardfork, every byte that is an instruction there (legacy or EOF code), with the value
   operand zero or non-zero: executing it with is_static = true is refused with
   StateChangeDuringStaticCall exactly for SSTORE, TSTORE, LOG0-4, CREATE, CREATE2, SELFDESTRUCT,
   EOFCREATE, with CallNotAllowedInsideStatic exactly for CALL / EXTCALL with non-zero value, and
   static mode objects to nothing else. *)
Theorem C10_static_gate :
  forall s b k (value_nonzero : bool), In s GateSpec.specs -> 0 <= b < 256 ->
    gate s b k = C_DEFINED ->
    objection (gen_static_raw s b k value_nonzero) = StaticSpec.static_class b value_nonzero.
Proof. exact static_gate_defined. Qed.

(* bytes that are executable but not instructions of the hardfork fail in static mode as well *)
Theorem C10_static_gate_undefined :
  forall s b k (value_nonzero : bool), In s GateSpec.specs -> 0 <= b < 256 ->
    executable_undefined (gate s b k) = true -> gen_static_raw s b k value_nonzero <> 0.
Proof. exact static_gate_undefined. Qed.

(* flag inheritance, read from the CallInputs each call-family opcode produces:
   child.is_static = parent.is_static || opcode in {STATICCALL, EXTSTATICCALL} *)
Theorem C10_child_flag :
  forall s b e, In s GateSpec.specs -> In (b, e) call_family ->
    gate s b (if e then Eof else Legacy) = C_DEFINED ->
    forall parent : bool, exists c0 c1, find_child s b = Some (e, c0, c1) /\
      (if parent then c1 else c0) = flag (child_is_static parent b).
Proof. exact child_flag. Qed.

(* model: every state-changing attempt made by a static frame fails that frame *)
Theorem C10_mutation_fails_static_frame :
  forall o rest self w, is_mutating o = true -> exec_code true self (Seq o rest) w = None.
Proof. exact mutating_fails_code. Qed.

(* model: for ALL frame trees, a frame executed in static mode that completes leaves the world
   state (storage, transient storage, logs, balances, nonces, destructed and created sets)
   exactly as it was; only the access (warm) status may differ.  The flag is inherited by every
   nested call whatever its kind (child_static true k = true). *)
Theorem C10_static_frame_preserves_state :
  forall c self w w', exec_code true self c w = Some w' -> view w' = view w.
Proof. exact static_code_preserves. Qed.

(* model: seen from the caller — a call whose callee runs static (STATICCALL / EXTSTATICCALL from
   anywhere, or any call kind made inside static mode) leaves the caller's world state unchanged,
   whether the callee completed or failed *)
Theorem C10_static_call_preserves_state :
  forall st self k to body w w', child_static st k = true ->
    exec_op st self (Call k to 0 body) w = Some w' -> view w' = view w.
Proof. exact static_call_preserves. Qed.

(* non-vacuity: a static frame that completes, calls through DELEGATECALL/CALLCODE/CALL, whose
   callees attempt SSTORE / LOG / value CALL (and fail), and the same tree run non-statically does
   change the state *)
Definition ex_tree : code :=
  Seq (Access 7)
  (Seq (Call KDelegateCall 11 0 (Seq (Call KCallCode 12 0 (Seq (Sstore 1 2) Done)) (Seq Pure Done)))
  (Seq (Call KCall 13 0 (Seq (Log 2) Done))
  (Seq (Call KCall 14 0 (Seq (Call KCall 15 1 Done) Done)) Done))).
Definition ex_world : world := mkW [(10, 1, 5)] [] [] [(10, 100)] [] [] [] [].
Example C10_model_nonvacuous :
  (exists w', exec_code true 10 ex_tree ex_world = Some w' /\ view w' = view ex_world /\ w_warm w' <> w_warm ex_world) /\
  (exists w', exec_code false 10 ex_tree ex_world = Some w' /\ view w' <> view ex_world).
Proof.
  split; eexists; (split; [vm_compute; reflexivity|]).
  - split; [reflexivity | discriminate].
  - discriminate.
Qed.

Example C10_table_examples :
  static_class 0x55 false = S_STATE_CHANGE /\ static_class 0xf1 true = S_VALUE_CALL /\
  static_class 0xf1 false = S_OK /\ static_class 0xf2 true = S_OK /\
  gate CANCUN 0x5d Legacy = C_DEFINED /\ gate OSAKA 0xec Eof = C_DEFINED /\
  child_is_static false 0xfa = true /\ child_is_static false 0xf4 = false /\ child_is_static true 0xf4 = true.
Proof. vm_compute. intuition. Qed.

(* ====================================================================================
   C10 on the reference interpreter (composition).  Model/Step.v (one instruction, with the
   is_static checks of SSTORE / TSTORE / LOGn / CREATE / CREATE2 / SELFDESTRUCT / CALL-with-value)
   and Model/Evm.v (do_call = make_call_frame + the callee's run + call_return; exec = the
   interpreter loop with nested calls and creates by recursion) over the journaled state of
   Model/Host.v / Model/Frames.v.  This interpreter is tied to the Rust code by the C01
   correspondence runs.  Proofs in Proofs/EvmStaticProofs.v.

   The "state-visible projection" static_proj of the observation HostView.cview_of keeps, per
   address: balance, nonce, code, created flag, selfdestructed flag, loaded-as-not-existing flag,
   and per slot (original value, present value); plus transient storage.  It drops exactly:
   the warm/cold mark of accounts and of slots, and the touched flag.  (Whether an account or
   slot is already held in the journaled state or still only in the database is not part of
   the observation to begin with.)  These exceptions are necessary: a static frame warms what
   it reads, make_call_frame's Transfer(0) branch touches the call target also inside a static
   call, and CALLCODE with value — which the static check of CALL does not cover, in revm as in
   the model — performs a transfer from the frame's account to itself, which touches it.

   Hypothesis HostRevert.Inv d s0 s cps (C06's invariant): s is a state inside a transaction
   whose outer checkpoint was taken at s0 — balances are 256-bit words, accounts created in the
   transaction have no storage in the database, the journal undoes to s0, cps are the open
   checkpoints.  It holds at the start of a transaction (FramesProofs.Inv_tx_start) and is kept
   by every operation (C06_wf_is_invariant, gseg_Inv). *)
From RevmV Require Import Base.Word Model.Step Model.Evm Proofs.EvmHistoryProofs Proofs.EvmStaticProofs.
From RevmV Require Model.Host Model.Frames Proofs.HostView Proofs.HostRevert Proofs.FramesProofs.

(* Main theorem.  For every world, fuel, state, frame and interpreter state: if the frame is
   static and its run — with all nested CALL / CALLCODE / DELEGATECALL / STATICCALL frames, at
   any depth, completed, reverted or halted — ends, then the state-visible projection, the log
   list, the code table and the log table are what they were.  Creates cannot occur. *)
Theorem C10_interpreter_static_frame_preserves_state :
  forall W f G F I G' r s0,
    f_static F = true ->
    HostRevert.Inv (gdb W G) s0 (gs G) (snd (g_sc G)) ->
    exec f W G F I = XDone (G', r) ->
    (static_proj (HostView.cview_of (gdb W G) (gs G')) = static_proj (HostView.cview_of (gdb W G) (gs G)) /\
     Host.logs (gs G') = Host.logs (gs G)) /\
    g_codes G' = g_codes G /\ g_logtab G' = g_logtab G /\ g_nlog G' = g_nlog G.
Proof. exact exec_static_preserves. Qed.

(* what equality of projections says, field by field *)
Theorem C10_projection_meaning :
  forall V V', static_proj V' = static_proj V ->
    HostView.cv_ts V' = HostView.cv_ts V /\
    forall a, let v := HostView.cv_acc V a in let v' := HostView.cv_acc V' a in
      HostView.v_bal v' = HostView.v_bal v /\ HostView.v_nonce v' = HostView.v_nonce v /\
      HostView.v_code v' = HostView.v_code v /\ HostView.v_created v' = HostView.v_created v /\
      HostView.v_selfd v' = HostView.v_selfd v /\ HostView.v_lane v' = HostView.v_lane v /\
      forall k, fst (HostView.v_slot v' k) = fst (HostView.v_slot v k).
Proof. exact static_proj_fields. Qed.

(* Flag inheritance on the interpreter: every call request issued by a static frame asks for a
   static callee (do_call builds the callee's frame with f_static = cq_static), whatever the
   call kind; it carries no value, or (CALLCODE) transfers from the frame's account to itself;
   and a static frame never issues a create request. *)
Theorem C10_interpreter_child_of_static_is_static :
  forall W G F I G1,
    f_static F = true ->
    (forall c I1, step W G F I = (G1, SCall c I1) ->
       cq_static c = true /\
       (cq_transfers c = true -> 0 <= cq_value c /\ (cq_value c = 0 \/ cq_caller c = cq_target c))) /\
    (forall c I1, step W G F I <> (G1, SCreate c I1)).
Proof.
  intros W G F I G1 ST. split.
  - intros c I1 E. exact (step_static_req W G F I G1 c I1 ST E).
  - intros c I1 E. exact (step_static_no_create W G F I G1 c I1 ST E).
Qed.

(* "Every attempt ... fails that frame", on the interpreter: in a static frame SSTORE, TSTORE,
   LOG0-4, CREATE, CREATE2 and SELFDESTRUCT (whether or not the hardfork has them) and CALL with
   a non-zero value operand end the frame with a result that is neither ok nor revert — all gas
   consumed, call_return reverts the frame's checkpoint — and the global state is not touched
   by the instruction. *)
Theorem C10_interpreter_mutation_fails_static_frame :
  forall W G F I, f_static F = true ->
    (let op := opcode_at F (i_pc I) in
     op = 0x55 \/ op = 0x5d \/ 0xa0 <= op <= 0xa4 \/ op = 0xf0 \/ op = 0xf5 \/ op = 0xff) ->
    exists r I', step W G F I = (G, SEnd r [] I') /\ is_ok r = false /\ is_revert r = false.
Proof. exact step_static_mutation_fails. Qed.

Theorem C10_interpreter_value_call_fails_static_frame :
  forall W G F I lg to v rest, f_static F = true ->
    opcode_at F (i_pc I) = 0xf1 -> i_stk I = lg :: to :: v :: rest -> 0 < v ->
    exists r I', step W G F I = (G, SEnd r [] I') /\ is_ok r = false /\ is_revert r = false.
Proof. exact step_static_value_call_fails. Qed.

(* on static frames the interpreter coincides with the create-free interpreter of C01 *)
Theorem C10_interpreter_static_frame_is_create_free :
  forall W f G F I x, f_static F = true -> exec f W G F I = XDone x -> exec_nc f W G F I = XDone x.
Proof. exact static_exec_nc. Qed.

(* Corollary: STATICCALL seen from its caller, which may be any frame (static or not).  From the
   state before the STATICCALL instruction to the state in which the caller continues — the
   instruction's own load of the callee, make_call_frame, the callee's whole run, call_return
   (commit or revert) — nothing state-visible changes; only warm / touched marks (and the
   caller's gas, stack, memory, which are not part of the journaled state). *)
Theorem C10_interpreter_staticcall_preserves_state :
  forall W f G F I G1 c I1 G2 r s0,
    HostRevert.Inv (gdb W G) s0 (gs G) (snd (g_sc G)) ->
    step W G F I = (G1, SCall c I1) -> cq_scheme c = SchStaticCall ->
    do_call W (exec f W) G1 c = XDone (G2, r) ->
    (static_proj (HostView.cview_of (gdb W G) (gs G2)) = static_proj (HostView.cview_of (gdb W G) (gs G)) /\
     Host.logs (gs G2) = Host.logs (gs G)) /\
    g_codes G2 = g_codes G /\ g_logtab G2 = g_logtab G /\ g_nlog G2 = g_nlog G.
Proof. exact staticcall_preserves. Qed.

(* the same for any call request whose callee runs static and that moves no value between
   different accounts (what STATICCALL builds, and what every call kind builds inside a static
   frame) *)
Theorem C10_interpreter_static_call_request_preserves_state :
  forall W f G c G' r s0,
    (cq_static c = true /\
     (cq_transfers c = true -> 0 <= cq_value c /\ (cq_value c = 0 \/ cq_caller c = cq_target c))) ->
    HostRevert.Inv (gdb W G) s0 (gs G) (snd (g_sc G)) ->
    do_call W (exec f W) G c = XDone (G', r) ->
    (static_proj (HostView.cview_of (gdb W G) (gs G')) = static_proj (HostView.cview_of (gdb W G) (gs G)) /\
     Host.logs (gs G') = Host.logs (gs G)) /\
    g_codes G' = g_codes G /\ g_logtab G' = g_logtab G /\ g_nlog G' = g_nlog G.
Proof. exact static_call_preserves. Qed.

(* non-vacuity.  CANCUN world; 0x1000 reads its storage slot 0 (SLOAD), the balance of 0x3000
   (BALANCE), calls 0x2000 (CALL, value 0) and returns what 0x2000 returned; 0x2000 calls 0x3000
   and returns 2 + the success flag of that call; 0x3000 attempts SSTORE.  Run below a STATICCALL
   the grandchild's SSTORE fails (flag 0, output 2) and the run completes; the same tree run
   below a plain CALL stores (output 3). *)
Definition exs_A : list Z :=
  [0x60;0;0x54;0x50;  0x61;0x30;0;0x31;0x50;
   0x60;32;0x60;0;0x60;0;0x60;0;0x60;0;0x61;0x20;0;0x5a;0xf1;0x50;  0x60;32;0x60;0;0xf3].
Definition exs_B : list Z :=
  [0x60;0;0x60;0;0x60;0;0x60;0;0x60;0;0x61;0x30;0;0x5a;0xf1;  0x60;2;0x01;0x60;0;0x52;  0x60;32;0x60;0;0xf3].
Definition exs_C : list Z := [0x60;1;0x60;0;0x55;0x00].
Definition exs_world : Step.world :=
  Step.mkW 17 (E.mkEnv (E.mainnet_cfg 1) (E.mkBlock (2^256-1) 0 true (Some 1))
                  (E.mkTx 200000 1 false 0 [] (Some 7) None [] None [] None None))
      0xCA11E4 (Some 0x1000) 0 [] [] [] [] 0xC01BBA5E 100 1700000000 0 0x1234
      [(0x1000, (5, 1, 77)); (0x2000, (0, 1, 78)); (0x3000, (0, 1, 79)); (0xCA11E4, (10^30, 7, 0))]
      [(0x1000, 0, 9)] [(77, exs_A); (78, exs_B); (79, exs_C)] [].
Definition exs_call (static : bool) : callreq :=
  mkCall (if static then SchStaticCall else SchCall) 100000 0x1000 0xCA11E4 0x1000 0 true static [] 0 0.
(* the state in which the static callee starts: after make_call_frame of the STATICCALL *)
Definition exs_G1 : gstate :=
  let G := gstate_new exs_world in
  match Frames.make_call_frame (gdb exs_world G) (g_sc G) (call_inputs_of exs_world (exs_call true)) with
  | Some (sc1, _) => set_sc G sc1
  | None => G
  end.
Definition exs_F : fctx := mk_fctx exs_A [] 0x1000 0xCA11E4 0 true.

Lemma exs_tx_start : FramesProofs.tx_start (gdb exs_world (gstate_new exs_world)) (gs (gstate_new exs_world)).
Proof.
  split; [|split; reflexivity]. split; [split|split].
  - intros a acc H. discriminate.
  - intros a b n c. cbn [gdb the_db Host.db_basic]. unfold exs_world. cbn [w_accounts acc_lookup].
    destruct (0x1000 =? a); [intros [= <- _ _]; unfold_pows; lia|].
    destruct (0x2000 =? a); [intros [= <- _ _]; unfold_pows; lia|].
    destruct (0x3000 =? a); [intros [= <- _ _]; unfold_pows; lia|].
    destruct (0xCA11E4 =? a); [intros [= <- _ _]; unfold_pows; lia|discriminate].
  - intros a acc H. discriminate.
  - cbn. congruence.
Qed.

Lemma exs_sreq : sreq (exs_call true).
Proof. split; [reflexivity|]. intros _. split; [cbn; lia|left; reflexivity]. Qed.

Example C10_interpreter_static_frame_example :
  f_static exs_F = true /\
  (exists s0, HostRevert.Inv (gdb exs_world exs_G1) s0 (gs exs_G1) (snd (g_sc exs_G1))) /\
  (match exec 100 exs_world exs_G1 exs_F (istate_new 100000) with
   | XDone (G', r) =>
       ir_res r = R_Return /\ ir_out r = to_be 32 2 /\
       (* marks did change: 0x3000 was absent and is now held warm *)
       Host.st (gs exs_G1) 0x3000 = None /\
       (match Host.st (gs G') 0x3000 with Some a => Host.a_cold a = false | None => False end)
   | _ => False end).
Proof.
  split; [reflexivity|]. split.
  - exists (FramesProofs.virtual0 (gs (gstate_new exs_world))). unfold exs_G1. cbv zeta.
    destruct (Frames.make_call_frame _ _ _) as [[sc1 fr]|] eqn:EM.
    + exact (Inv_after_call_frame _ _ _ _ _ exs_tx_start (sci_value_ok _ (sreq_sci exs_world _ exs_sreq)) EM).
    + apply FramesProofs.Inv_tx_start. exact exs_tx_start.
  - vm_compute. repeat split; reflexivity.
Qed.

Example C10_interpreter_staticcall_example :
  let G := gstate_new exs_world in
  FramesProofs.tx_start (gdb exs_world G) (gs G) /\
  (match do_call exs_world (exec 100 exs_world) G (exs_call true) with
   | XDone (_, r) => ir_res r = R_Return /\ ir_out r = to_be 32 2 | _ => False end) /\
  (* the same tree below a plain CALL: the grandchild's SSTORE succeeds *)
  (match do_call exs_world (exec 100 exs_world) G (exs_call false) with
   | XDone (G', r) => ir_res r = R_Return /\ ir_out r = to_be 32 3 /\
       (match Host.st (gs G') 0x3000 with
        | Some a => (match Host.a_storage a 0 with Some sl => Host.s_pres sl = 1 | None => False end)
        | None => False end)
   | _ => False end).
Proof.
  split; [exact exs_tx_start|]. split; vm_compute; repeat split; reflexivity.
Qed.
