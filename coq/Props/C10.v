(* C10 — a static call cannot change state.
   Table part (finite, by computation over Gen/StaticGate.v reflected from the compiled code) and
   model part (all frame trees, by induction).  Proofs in Proofs/StaticProofs.v. *)
From Coq Require Import ZArith List Bool.
From RevmV Require Import Gen.StaticGate Spec.GateSpec Spec.StaticSpec Proofs.GateProofs
  Model.StaticFrame Proofs.StaticProofs.
Import ListNotations.
Local Open Scope Z_scope.

(* For every hardfork, every byte that is an instruction there (legacy or EOF code), with the value
   operand zero or non-zero: executing it with is_static = true is refused with
   StateChangeDuringStaticCall exactly for SSTORE, TSTORE, LOG0-4, CREATE, CREATE2, SELFDESTRUCT,
   EOFCREATE, with CallNotAllowedInsideStatic exactly for CALL / EXTCALL with non-zero value, and
   static mode objects to nothing else. *)
Theorem C10_static_gate :
  forall s b k (value_nonzero : bool), In s GateSpec.specs -> 0 <= b < 256 ->
    gate s b k = C_DEFINED ->
    objection (gen_static_raw s b k value_nonzero) = StaticSpec.static_class b value_nonzero.
Proof. exact static_gate_defined. Qed.

(* bytes that are executable but not instructions of the hardfork fail in static mode as well *)
Theorem C10_static_gate_undefined :
  forall s b k (value_nonzero : bool), In s GateSpec.specs -> 0 <= b < 256 ->
    executable_undefined (gate s b k) = true -> gen_static_raw s b k value_nonzero <> 0.
Proof. exact static_gate_undefined. Qed.

(* flag inheritance, read from the CallInputs each call-family opcode produces:
   child.is_static = parent.is_static || opcode in {STATICCALL, EXTSTATICCALL} *)
Theorem C10_child_flag :
  forall s b e, In s GateSpec.specs -> In (b, e) call_family ->
    gate s b (if e then Eof else Legacy) = C_DEFINED ->
    forall parent : bool, exists c0 c1, find_child s b = Some (e, c0, c1) /\
      (if parent then c1 else c0) = flag (child_is_static parent b).
Proof. exact child_flag. Qed.

(* model: every state-changing attempt made by a static frame fails that frame *)
Theorem C10_mutation_fails_static_frame :
  forall o rest self w, is_mutating o = true -> exec_code true self (Seq o rest) w = None.
Proof. exact mutating_fails_code. Qed.

(* model: for ALL frame trees, a frame executed in static mode that completes leaves the world
   state (storage, transient storage, logs, balances, nonces, destructed and created sets)
   exactly as it was; only the access (warm) status may differ.  The flag is inherited by every
   nested call whatever its kind (child_static true k = true). *)
Theorem C10_static_frame_preserves_state :
  forall c self w w', exec_code true self c w = Some w' -> view w' = view w.
Proof. exact static_code_preserves. Qed.

(* model: seen from the caller — a call whose callee runs static (STATICCALL / EXTSTATICCALL from
   anywhere, or any call kind made inside static mode) leaves the caller's world state unchanged,
   whether the callee completed or failed *)
Theorem C10_static_call_preserves_state :
  forall st self k to body w w', child_static st k = true ->
    exec_op st self (Call k to 0 body) w = Some w' -> view w' = view w.
Proof. exact static_call_preserves. Qed.

(* non-vacuity: a static frame that completes, calls through DELEGATECALL/CALLCODE/CALL, whose
   callees attempt SSTORE / LOG / value CALL (and fail), and the same tree run non-statically does
   change the state *)
Definition ex_tree : code :=
  Seq (Access 7)
  (Seq (Call KDelegateCall 11 0 (Seq (Call KCallCode 12 0 (Seq (Sstore 1 2) Done)) (Seq Pure Done)))
  (Seq (Call KCall 13 0 (Seq (Log 2) Done))
  (Seq (Call KCall 14 0 (Seq (Call KCall 15 1 Done) Done)) Done))).
Definition ex_world : world := mkW [(10, 1, 5)] [] [] [(10, 100)] [] [] [] [].
Example C10_model_nonvacuous :
  (exists w', exec_code true 10 ex_tree ex_world = Some w' /\ view w' = view ex_world /\ w_warm w' <> w_warm ex_world) /\
  (exists w', exec_code false 10 ex_tree ex_world = Some w' /\ view w' <> view ex_world).
Proof.
  split; eexists; (split; [vm_compute; reflexivity|]).
  - split; [reflexivity | discriminate].
  - discriminate.
Qed.

Example C10_table_examples :
  static_class 0x55 false = S_STATE_CHANGE /\ static_class 0xf1 true = S_VALUE_CALL /\
  static_class 0xf1 false = S_OK /\ static_class 0xf2 true = S_OK /\
  gate CANCUN 0x5d Legacy = C_DEFINED /\ gate OSAKA 0xec Eof = C_DEFINED /\
  child_is_static false 0xfa = true /\ child_is_static false 0xf4 = false /\ child_is_static true 0xf4 = true.
Proof. vm_compute. intuition. Qed.
