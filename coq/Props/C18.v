(* C18 - splitting and joining bundles: extend, take_n_reverts, prepend_state. *)
From stdpp Require Import gmap.
From Coq Require Import ZArith.
From RevmV Require Import Model.Bundle Spec.BundleSpec Spec.BundleHist Spec.BundleSplit Proofs.BundleProofs
  Proofs.BundleProofsExt Proofs.BundleWitness.
Local Open Scope Z_scope.

(* A split is clean when no account of the second part starts in a destroyed status
   (Spec/BundleSplit.v: CleanSplit g2 := starts_destroyed [] (flat g2) = false). *)

(* Full statement for the post-state changeset (PROVED below, C18_extend_changeset; also tested at
   every split point by Corr/C18.v): on clean splits the joined bundle describes the final state.
   Without CleanSplit it is false (C18_extend_changeset_refuted). *)
Definition C18_statement_extend : Prop :=
  forall p0 g1 g2 b1 b2 (known : bool),
    HistOK p0 (g1 ++ g2) -> CleanSplit g2 ->
    bundle_of true g1 = Some b1 -> bundle_of true g2 = Some b2 ->
    plain_equiv (apply_changeset (to_plain_state (extend b1 b2) known) p0) (plain_after p0 (g1 ++ g2)).
(* The per-group pre-values of the joined bundle are false even on clean splits
   (C18_extend_marker_refuted), and false on unclean ones (C18_extend_prevalues_refuted). *)

(* For ALL TransOK histories, ALL split points that are clean, all groupings of both parts, both
   OriginalValuesKnown settings.  Proof (Proofs/BundleProofsExt.v): the second bundle is built from
   the history state at the split; addresses with a destroyed status there are never touched
   (clean_untouched), for all others the per-cell preservation of C16 applies relative to the
   state at the split (binvF_history); extend's first loop empties a storage only where the second
   bundle ends destroyed (extend_fold_state, rinv); extend_state per address and per
   (destroyed / not destroyed) status of the newer entry (extend_acct). *)
Theorem C18_extend_changeset : C18_statement_extend.
Proof. exact extend_changeset. Qed.

(* proved: take_n_reverts returns the first n groups and leaves the rest; nothing else changes;
   n beyond the number of groups takes them all *)
Theorem C18_take_n_reverts :
  forall b n,
    let '(det, b') := take_n_reverts b n in
    det = firstn n (bs_reverts b) /\ bs_reverts b' = skipn n (bs_reverts b)
    /\ det ++ bs_reverts b' = bs_reverts b
    /\ bs_state b' = bs_state b /\ bs_contracts b' = bs_contracts b.
Proof. exact take_n_reverts_spec. Qed.

(* proved: prepending an older bundle's state never overrides newer values *)
Theorem C18_prepend_keeps_newer :
  forall this other a n,
    bs_state this !! a = Some n ->
    exists r, bs_state (prepend_state this other) !! a = Some r
      /\ b_info r = b_info n
      /\ (was_destroyed (b_status n) = true -> b_storage r = b_storage n)
      /\ (forall k s, b_storage n !! k = Some s ->
          exists s', b_storage r !! k = Some s' /\ s_pres s' = s_pres s).
Proof. exact prepend_state_newer. Qed.
Theorem C18_prepend_older_only :
  forall this other a,
    bs_state this !! a = None ->
    bs_state (prepend_state this other) !! a = bs_state other !! a.
Proof. exact prepend_state_older_only. Qed.
Theorem C18_prepend_keeps_newer_contracts :
  forall this other h c,
    bs_contracts this !! h = Some c -> bs_contracts (prepend_state this other) !! h = Some c.
Proof. exact prepend_state_contracts. Qed.

(* REFUTED (known finding C18-extend-inherited-destroyed-status): account created, destroyed and
   re-created with slot 2 = 6 in the first bundle; the second bundle (same cache: the transition
   starts from DestroyedChanged) writes slot 1; extend replaces the storage, slot 2 is lost. *)
Theorem C18_extend_changeset_refuted :
  exists p0 g1 g2 b1 b2,
    HistOK p0 (g1 ++ g2) /\ bundle_of true g1 = Some b1 /\ bundle_of true g2 = Some b2 /\
    ~ plain_equiv (apply_changeset (to_plain_state (extend b1 b2) false) p0) (plain_after p0 (g1 ++ g2)).
Proof.
  exists pe, w2a, w2b, bw2a, bw2b.
  split; [split; [exact pe_wf | split; [exact pe_nocode | vm_compute; reflexivity]]|].
  split; [apply bof_some; vm_compute; reflexivity|]. split; [apply bof_some; vm_compute; reflexivity|].
  intros [_ H]. specialize (H 1 2). vm_compute in H. discriminate.
Qed.

(* REFUTED (known finding C18-extend-prevalues-not-migrated): same first bundle, the second one
   selfdestructs the account again; the joined bundle's last revert group does not give slot 2 its
   value 6 back, the single bundle's does. *)
Theorem C18_extend_prevalues_refuted :
  exists p0 g1 g2 b1 b2 b12,
    HistOK p0 (g1 ++ g2) /\ bundle_of true g1 = Some b1 /\ bundle_of true g2 = Some b2 /\
    bundle_of true (g1 ++ g2) = Some b12 /\
    let r12 := nth 3 (to_plain_state_reverts (bs_reverts b12)) (mkPR ∅ ∅) in
    let rj := nth 3 (to_plain_state_reverts (bs_reverts (extend b1 b2))) (mkPR ∅ ∅) in
    stor_get (plain_after p0 g1) 1 2 = 6 /\
    stor_get (apply_plain_revert p0 r12 (plain_after p0 (g1 ++ g2))) 1 2 = 6 /\
    stor_get (apply_plain_revert p0 rj (plain_after p0 (g1 ++ g2))) 1 2 = 0.
Proof.
  exists pe, w2a, w3b, bw2a, bw3b, bw23.
  split; [split; [exact pe_wf | split; [exact pe_nocode | vm_compute; reflexivity]]|].
  split; [apply bof_some; vm_compute; reflexivity|]. split; [apply bof_some; vm_compute; reflexivity|].
  split; [apply (bof_some (w2a ++ w3b)); vm_compute; reflexivity|].
  split; [|split]; vm_compute; reflexivity.
Qed.

(* REFUTED on a clean split (known finding C18-extend-destroyed-marker-kept): account created with
   slot 3 = 6 | (selfdestruct ; re-create writing slots 1 and 3) in one group of the second bundle;
   the wiped revert of the second bundle marks slot 3 Destroyed and extend's or_insert keeps the
   marker, so the pre-value of slot 3 reads as the database value 0 instead of 6. *)
Theorem C18_extend_marker_refuted :
  exists p0 g1 g2 b1 b2 b12,
    HistOK p0 (g1 ++ g2) /\ CleanSplit g2 /\
    bundle_of true g1 = Some b1 /\ bundle_of true g2 = Some b2 /\
    bundle_of true (g1 ++ g2) = Some b12 /\
    let r12 := nth 1 (to_plain_state_reverts (bs_reverts b12)) (mkPR ∅ ∅) in
    let rj := nth 1 (to_plain_state_reverts (bs_reverts (extend b1 b2))) (mkPR ∅ ∅) in
    stor_get (plain_after p0 g1) 1 3 = 6 /\
    stor_get (apply_plain_revert p0 r12 (plain_after p0 (g1 ++ g2))) 1 3 = 6 /\
    stor_get (apply_plain_revert p0 rj (plain_after p0 (g1 ++ g2))) 1 3 = 0.
Proof.
  exists pe, w4a, w4b, bw4a, bw4b, bw4.
  split; [split; [exact pe_wf | split; [exact pe_nocode | vm_compute; reflexivity]]|].
  split; [vm_compute; reflexivity|].
  split; [apply bof_some; vm_compute; reflexivity|]. split; [apply bof_some; vm_compute; reflexivity|].
  split; [apply (bof_some (w4a ++ w4b)); vm_compute; reflexivity|].
  split; [|split]; vm_compute; reflexivity.
Qed.

(* non-vacuity of CleanSplit together with HistOK *)
Example C18_clean_split_satisfiable :
  HistOK pe (w4a ++ w4b) /\ CleanSplit w4b /\ is_Some (bundle_of true w4a) /\ is_Some (bundle_of true w4b).
Proof.
  split; [split; [exact pe_wf | split; [exact pe_nocode | vm_compute; reflexivity]]|].
  split; [vm_compute; reflexivity|]. split; [exists bw4a|exists bw4b]; apply bof_some; vm_compute; reflexivity.
Qed.
