(* C26 — EOF codec and validation. Only statements; proofs live in Proofs/EofProofs.v,
   Proofs/EofValidateProofs.v and Proofs/EofValidate{Tables,Step,Dispatch,Proofs2,Section,Container,Safe,Total,Total2}.v. A byte string is a list of Z with every element in 0..255
   ([is_bytes]); [Panic] is the model's outcome for an out-of-range slice/index. *)
From RevmV Require Import Model.Eof Model.EofValidate Spec.EofSafe Proofs.EofProofs Proofs.EofValidateProofs
  Proofs.EofValidateStep Proofs.EofValidateDispatch Proofs.EofValidateProofs2 Proofs.EofValidateSection
  Proofs.EofValidateContainer Proofs.EofValidateSafe Proofs.EofValidateTotal Proofs.EofValidateTotal2.
From Coq Require Import Lia.
Local Open Scope Z_scope.

(* Any byte string that decodes re-encodes (encode_slow of header+body) to exactly the same
   bytes; the stored [raw] is the input as well. No guard is needed: this holds also for
   containers whose data section is shorter than the declared data_size. *)
Theorem C26_decode_reencode :
  forall bs e, is_bytes bs = true -> decode bs = Ok e -> encode_slow e = bs /\ raw e = bs.
Proof. intros bs e Hb H. apply is_bytes_ok in Hb. destruct (decode_roundtrip bs e Hb H) as (A & B & _). auto. Qed.

(* Decoding is total: every slice / index performed is in range (the model's Panic outcome is
   unreachable), for Eof::decode and for Eof::decode_dangling. *)
Theorem C26_decode_never_panics :
  forall bs, is_bytes bs = true -> decode bs <> Panic /\ decode_dangling bs <> Panic.
Proof.
  intros bs Hb. apply is_bytes_ok in Hb. split; [apply decode_no_panic|apply decode_dangling_no_panic]; assumption.
Qed.

Theorem C26_decode_total :
  forall bs, is_bytes bs = true -> (exists e, decode bs = Ok e) \/ (exists err, decode bs = Err err).
Proof.
  intros bs Hb. apply is_bytes_ok in Hb. pose proof (decode_no_panic bs Hb).
  destruct (decode bs); [left|right|congruence]; eauto.
Qed.

(* What decode returns is well formed (header consistent with body, counts within limits). *)
Theorem C26_decoded_well_formed :
  forall bs e, is_bytes bs = true -> decode bs = Ok e -> wf_eof e.
Proof. intros bs e Hb H. apply is_bytes_ok in Hb. apply (decode_roundtrip bs e Hb H). Qed.

(* Converse: a well-formed container encodes to bytes that decode to the same container. *)
Theorem C26_encode_decode :
  forall e, wf_eof e -> decode (encode_slow e) = Ok e.
Proof. exact decode_complete. Qed.

(* decode_dangling splits exactly at eof_size: the first part is a container that decodes on its
   own to the same value and has a full data section, the rest is returned untouched. *)
Theorem C26_dangling_splits_at_eof_size :
  forall bs e d, is_bytes bs = true -> decode_dangling bs = Ok (e, d) ->
    bs = raw e ++ d /\ len (raw e) = eof_size (header e) /\ decode (raw e) = Ok e /\
    is_data_filled (body e) = true.
Proof. intros bs e d Hb. apply is_bytes_ok in Hb. apply decode_dangling_spec. assumption. Qed.

Theorem C26_dangling_accepts_every_extension :
  forall bs e d, is_bytes bs = true -> decode bs = Ok e -> is_data_filled (body e) = true ->
    decode_dangling (bs ++ d) = Ok (e, d).
Proof. intros bs e d Hb. apply is_bytes_ok in Hb. apply decode_dangling_complete. assumption. Qed.

(* Decode-level facts the interpreter relies on: one types entry per code section, 1..1024
   non-empty code sections, at most 256 non-empty sub-containers, and the bounds used by
   RETURNCONTRACT's usize subtractions and by its patch of the data_size field. *)
Theorem C26_decode_section_counts :
  forall bs e, is_bytes bs = true -> decode bs = Ok e ->
    len (types_section (body e)) = len (code_section (body e)) /\
    1 <= len (code_section (body e)) <= 1024 /\
    len (container_section (body e)) <= 256 /\
    Forall (fun c => 1 <= len c <= 65535) (code_section (body e)) /\
    Forall (fun c => 1 <= len c <= 65535) (container_section (body e)) /\
    len bs <= eof_size (header e) /\ eof_size (header e) - len bs <= data_size (header e) /\
    0 <= data_size_raw_i (header e) /\ data_size_raw_i (header e) + 2 <= len bs.
Proof. intros bs e Hb. apply is_bytes_ok in Hb. apply decode_section_counts. assumption. Qed.

(* Validation is a function of the container bytes and the expected code type: equal inputs
   (a clone) give the equal verdict. (In the model this is true by construction; on the
   implementation the harness calls the validator twice, the second time on a fresh copy.) *)
Theorem C26_validation_is_a_function :
  forall bs bs' k, bs = bs' -> validate_raw_eof_inner bs k = validate_raw_eof_inner bs' k.
Proof. intros bs bs' k ->. reflexivity. Qed.

(* What acceptance implies at the decode level: the bytes decode, the data section is filled,
   there is exactly one types entry per code section (1..1024 of them), at most 256
   sub-containers, and the first section has the signature (0 inputs, non-returning). *)
Theorem C26_accepted_decode_facts :
  forall bs k, is_bytes bs = true -> validate_raw_eof_inner_r bs k = VOk tt ->
    len bs <= MAX_INITCODE_SIZE /\
    exists e, decode bs = Ok e /\ is_data_filled (body e) = true /\
      len (code_section (body e)) = len (types_section (body e)) /\
      1 <= len (code_section (body e)) <= 1024 /\ len (container_section (body e)) <= 256 /\
      (exists t0, nth_z (types_section (body e)) 0 = Some t0 /\ inputs t0 = 0 /\ outputs t0 = 128).
Proof. intros bs k Hb. apply is_bytes_ok in Hb. apply validate_accept_facts. assumption. Qed.

(* ---------------------------------------------------------------------------------------------
   Validation soundness, for EVERY byte string. The predicates below are defined over the bytes of
   a code section with a plain instruction walk (Proofs/EofValidateProofs.next_pc: opcode table +
   immediate sizes, RJUMPV with its table); none of them mentions the validator's per-byte table.
     reach code p          p is an instruction boundary (walk from offset 0)
     is_start code p       reach code p /\ 0 <= p < len code
     jump_targets code p   targets of the RJUMP/RJUMPI/RJUMPV at p, relative to the end of the
                           instruction (EIP-4200), read from the code bytes
     term_at code p        the opcode at p is terminating in OPCODE_INFO_JUMPTABLE (STOP, RETURN,
                           REVERT, INVALID, RETF, JUMPF, RETURNCONTRACT, RJUMP)
   --------------------------------------------------------------------------------------------- *)

(* A code section that validate_eof_code accepts splits into whole instructions from offset 0 to
   its end, and every CALLF/JUMPF operand on the way is < number of types entries, every
   EOFCREATE/RETURNCONTRACT operand is < number of sub-containers. (First, weaker form; kept
   because its predicate is a forward derivation; superseded by C26_validated_section_walk_safe.) *)
Theorem C26_validated_section_operands :
  forall code ds idx ncont types tr tr',
    is_bytes code = true -> validate_eof_code code ds idx ncont types tr = VOk tr' ->
    walk_ok code (len types) ncont 0.
Proof. intros code ds idx ncont types tr tr' Hb. apply is_bytes_ok in Hb. apply validate_eof_code_walk. assumption. Qed.

(* (1) An accepted code section is [walk_safe]: the end of the section is an instruction boundary;
   every instruction start carries a defined, EOF-enabled opcode whose immediates (and RJUMPV
   table) lie inside the section, with CALLF/JUMPF operands < number of types entries,
   EOFCREATE/RETURNCONTRACT operands < number of sub-containers, DATALOADN operand + 32 <= data
   size, and every relative-jump target an instruction start of the same section; the last
   instruction is terminating. *)
Theorem C26_validated_section_walk_safe :
  forall code ds idx ncont types tr tr',
    is_bytes code = true -> validate_eof_code code ds idx ncont types tr = VOk tr' ->
    walk_safe code (len types) ncont ds.
Proof. intros code ds idx ncont types tr tr' Hb. apply is_bytes_ok in Hb. apply validate_eof_code_walk_safe. assumption. Qed.

(* the two clauses of (1) asked for most often, unfolded: no relative jump into immediate bytes or
   out of the section, and execution cannot run off the end of the section *)
Theorem C26_validated_jump_targets_and_last_instruction :
  forall code ds idx ncont types tr tr',
    is_bytes code = true -> validate_eof_code code ds idx ncont types tr = VOk tr' ->
    (forall p, is_start code p ->
       exists tg, jump_targets code p = Some tg /\ forall t, In t tg -> is_start code t) /\
    (exists p, is_start code p /\ next_pc code p = Some (len code) /\ term_at code p).
Proof. intros code ds idx ncont types tr tr' Hb. apply is_bytes_ok in Hb. apply validate_eof_code_jump_targets. assumption. Qed.

(* (2) Stack heights. For an accepted section there is an assignment of intervals [lo p, hi p] to
   instruction starts (the validator's recorded smallest/biggest) that contains the entry height
   (= inputs), is closed under fall-through and relative jumps with the height change of the
   instruction, and satisfies at every instruction start: items required <= lo, hi <= declared
   max_stack_size, CALLF only to returning sections with hi - inputs + callee max_stack <= 1024,
   JUMPF with room for the callee and (to a returning section) outputs(callee) <= outputs and
   hi <= outputs + inputs(callee) - outputs(callee), RETF with hi <= outputs <= lo; a
   non-returning section (outputs = 0x80) contains no RETF and no JUMPF to a returning section. *)
Theorem C26_validated_section_stack_certificate :
  forall code ds idx ncont types tr tr',
    is_bytes code = true -> validate_eof_code code ds idx ncont types tr = VOk tr' ->
    exists tt, nth_z types idx = Some tt /\ exists lo hi, stack_cert code types tt lo hi.
Proof.
  intros code ds idx ncont types tr tr' Hb H. apply is_bytes_ok in Hb.
  destruct (validate_eof_code_sound _ _ _ _ _ _ _ Hb H) as ((_ & X) & _). exact X.
Qed.

(* The global dataflow statement: [hreach code types tt p h] = "some execution of the section,
   entered with [inputs] items, arrives at instruction p with h items above the frame base"
   (an instruction needs [req] items and changes the height by [diff]; a CALLF is taken to return
   with exactly the callee's declared outputs - which is this very theorem's RETF clause for the
   callee). Every such (p, h) of an accepted section satisfies: h <= max_stack_size; the
   instruction's required items are present (no underflow); the CALLF/JUMPF room and output rules
   hold for the actual height h; at RETF the height is exactly [outputs]. *)
Theorem C26_validated_stack_heights :
  forall code ds idx ncont types tr tr',
    is_bytes code = true -> validate_eof_code code ds idx ncont types tr = VOk tr' ->
    exists tt, nth_z types idx = Some tt /\
      (outputs tt = 128 -> forall p, is_start code p -> ~ instr_returns code types p) /\
      forall p h, hreach code types tt p h -> is_start code p ->
        h <= max_stack_size tt /\
        exists req diff, instr_stack code types tt p = Some (req, diff) /\ req <= h /\
          instr_limits code types tt p h /\ (get code p = Some OP_RETF -> h = outputs tt).
Proof. intros code ds idx ncont types tr tr' Hb. apply is_bytes_ok in Hb. apply validate_eof_code_heights. assumption. Qed.

(* (3) Lifting to the whole container and to all nested containers. [container_valid e k]
   (Proofs/EofValidateContainer.v) holds when, for some list cts of kinds of the sub-containers
   ([codes_safe e k cts]): types count = code count >= 1, first section (0 inputs, 0x80); EVERY
   code section is [section_ok] (= (1) and (2) above); every EOFCREATE operand names a
   sub-container of kind ReturnContract, every RETURNCONTRACT operand one of kind ReturnOrStop;
   RETURNCONTRACT occurs only in a container of kind ReturnContract and RETURN/STOP only in one of
   kind ReturnOrStop (the kind is k when k is given); a container of kind ReturnContract has its
   data section filled; and EVERY sub-container decodes and is container_valid with its kind,
   recursively. *)
Theorem C26_validated_container :
  forall bs k, is_bytes bs = true -> validate_raw_eof_inner_r bs k = VOk tt ->
    exists e, decode bs = Ok e /\ is_data_filled (body e) = true /\ container_valid e k.
Proof. intros bs k Hb. apply is_bytes_ok in Hb. apply validate_raw_eof_inner_sound. assumption. Qed.

Theorem C26_container_valid_unfold :
  forall e k, container_valid e k ->
    exists cts, codes_safe e k cts /\
      Forall2 (fun c ct => exists e', decode c = Ok e' /\ container_valid e' (Some ct))
              (container_section (body e)) cts.
Proof. exact container_valid_unfold. Qed.

(* (4) The single statement against the independent scanner of Spec/EofSafe.v, with the fuel the
   correspondence check uses: every accepted byte string decodes to a container on which
   [container_safe] holds (all code sections of all nested containers: whole instructions, jump
   targets on instruction starts, operands in range, last instruction terminating, sub-containers
   decode, EOFCREATE targets have filled data). *)
Theorem C26_validated_container_safe :
  forall bs k, is_bytes bs = true -> validate_raw_eof_inner_r bs k = VOk tt ->
    exists e, decode bs = Ok e /\ container_safe (S (length bs)) e = true.
Proof. intros bs k Hb. apply is_bytes_ok in Hb. apply validate_raw_eof_inner_container_safe. assumption. Qed.

(* Validation is total on the model: no index of the validator (code bytes, per-byte table, types,
   code sections, access-tracker vectors, RJUMPV table, the unsafe read_u16/read_i16) is ever out
   of range, and the fuel the model gives its three loops (length code / S (number of sections) /
   S (length raw)) always suffices - the model's VPanic outcome is unreachable, for every byte
   string and every expected kind. *)
Theorem C26_validation_never_panics :
  forall bs k, is_bytes bs = true ->
    validate_raw_eof_inner_r bs k <> VPanic /\ validate_raw_eof_inner bs k <> VPanicked.
Proof.
  intros bs k Hb. apply is_bytes_ok in Hb. pose proof (validate_raw_eof_inner_np bs k Hb) as N.
  split; [exact N|]. unfold validate_raw_eof_inner. destruct (validate_raw_eof_inner_r bs k); congruence.
Qed.

(* non-vacuity *)
Definition ex_container : bytes :=
  (* ef0001 010004 0200010003 030001 0014 04 0002 00 | 00800001 | 60 00 fe | sub | data *)
  [239;0;1; 1;0;4; 2;0;1;0;3; 3;0;1;0;20; 4;0;2; 0;  0;128;0;1;  96;0;254;
   239;0;1;1;0;4;2;0;1;0;1;4;0;0;0;0;128;0;0;254;  170;187].
Example C26_example_decodes :
  is_bytes ex_container = true /\
  exists e, decode ex_container = Ok e /\ encode_slow e = ex_container /\
            is_data_filled (body e) = true /\ len (container_section (body e)) = 1.
Proof. split; [reflexivity|]. eexists. split; [vm_compute; reflexivity|]. vm_compute. auto. Qed.
(* a container whose data section is shorter than declared still round-trips *)
Example C26_example_truncated_data :
  let bs := firstn 48 ex_container in
  exists e, decode bs = Ok e /\ encode_slow e = bs /\ is_data_filled (body e) = false /\
            data_size (header e) = 2 /\ len (data_section (body e)) = 1.
Proof. eexists. split; [vm_compute; reflexivity|]. vm_compute. auto. Qed.
Example C26_example_dangling :
  exists e, decode_dangling (ex_container ++ [1;2;3]) = Ok (e, [1;2;3]) /\ raw e = ex_container.
Proof. eexists. split; vm_compute; reflexivity. Qed.

(* ex_container never touches its sub-container, so validation rejects it (SubContainerNotAccessed);
   a container that is accepted as init code: one section PUSH0 PUSH0 REVERT *)
Definition ex_accepted : bytes :=
  [239;0;1; 1;0;4; 2;0;1;0;3; 4;0;0; 0;  0;128;0;2;  95;95;253].
Example C26_example_accepted :
  validate_raw_eof_inner_r ex_accepted (Some ReturnContract) = VOk tt /\
  validate_raw_eof_inner ex_container (Some ReturnContract) = VKnown (200 + 31) /\
  match decode ex_accepted with Ok e => container_safe 10 e | _ => false end = true /\
  walk_ok [95;95;253] 1 0 0.
Proof.
  split; [vm_compute; reflexivity|]. split; [vm_compute; reflexivity|].
  split; [vm_compute; reflexivity|].
  eapply walk_step with (j := 1); [reflexivity|vm_compute; reflexivity|lia| |].
  { intros op E. vm_compute in E. inversion E. split; intros [?|?]; discriminate. }
  eapply walk_step with (j := 2); [reflexivity|vm_compute; reflexivity|lia| |].
  { intros op E. vm_compute in E. inversion E. split; intros [?|?]; discriminate. }
  eapply walk_step with (j := 3); [reflexivity|vm_compute; reflexivity|lia| |].
  { intros op E. vm_compute in E. inversion E. split; intros [?|?]; discriminate. }
  apply walk_end. vm_compute. discriminate.
Qed.

(* two code sections (RJUMPI, RJUMPV, CALLF 1, RETURNCONTRACT 0 / PUSH0 RETF) and one nested
   runtime container (STOP): accepted as init code, rejected as runtime code
   (SubContainerCalledInTwoModes) *)
Definition ex_code0 : bytes := [95; 225;0;1; 91; 95; 226;1;0;0;0;1; 91; 227;0;1; 95; 238;0].
Definition ex_types : list TypesSection := [mkTypes 0 128 2; mkTypes 0 1 1].
Definition ex_nested : bytes :=
  [239;0;1; 1;0;8; 2;0;2;0;19;0;2; 3;0;1;0;20; 4;0;0; 0;  0;128;0;2;  0;1;0;1]
  ++ ex_code0 ++ [95; 228]
  ++ [239;0;1; 1;0;4; 2;0;1;0;1; 4;0;0; 0; 0;128;0;0; 0].
Example C26_example_accepted_nested :
  is_bytes ex_nested = true /\
  validate_raw_eof_inner_r ex_nested (Some ReturnContract) = VOk tt /\
  validate_raw_eof_inner ex_nested (Some ReturnOrStop) = VKnown (200 + 30) /\
  match decode ex_nested with Ok e => container_safe (S (length ex_nested)) e | _ => false end = true /\
  (exists tr', validate_eof_code ex_code0 0 0 1 ex_types
                   (mkTracker (Some ReturnContract) [true; false] [0] [None]) = VOk tr') /\
  jump_targets ex_code0 1 = Some [5] /\ jump_targets ex_code0 6 = Some [12; 13] /\
  hreach ex_code0 ex_types (mkTypes 0 128 2) 1 (0 + 1).
Proof.
  split; [reflexivity|]. split; [vm_compute; reflexivity|]. split; [vm_compute; reflexivity|].
  split; [vm_compute; reflexivity|]. split; [eexists; vm_compute; reflexivity|].
  split; [reflexivity|]. split; [reflexivity|].
  eapply hr_next with (p := 0) (req := 0).
  - constructor.
  - split; [constructor|vm_compute; split; congruence].
  - vm_compute. reflexivity.
  - lia.
  - intros (op & o & E1 & E2 & E3). vm_compute in E1. inversion E1. subst op.
    vm_compute in E2. inversion E2. subst o. discriminate.
  - vm_compute. reflexivity.
Qed.
