(* C26 — EOF codec and validation. Only statements; proofs live in Proofs/EofProofs.v and
   Proofs/EofValidateProofs.v. A byte string is a list of Z with every element in 0..255
   ([is_bytes]); [Panic] is the model's outcome for an out-of-range slice/index. *)
From RevmV Require Import Model.Eof Model.EofValidate Spec.EofSafe Proofs.EofProofs Proofs.EofValidateProofs.
Local Open Scope Z_scope.

(* Any byte string that decodes re-encodes (encode_slow of header+body) to exactly the same
   bytes; the stored [raw] is the input as well. No guard is needed: this holds also for
   containers whose data section is shorter than the declared data_size. *)
Theorem C26_decode_reencode :
  forall bs e, is_bytes bs = true -> decode bs = Ok e -> encode_slow e = bs /\ raw e = bs.
Proof. intros bs e Hb H. apply is_bytes_ok in Hb. destruct (decode_roundtrip bs e Hb H) as (A & B & _). auto. Qed.

(* Decoding is total: every slice / index performed is in range (the model's Panic outcome is
   unreachable), for Eof::decode and for Eof::decode_dangling. *)
Theorem C26_decode_never_panics :
  forall bs, is_bytes bs = true -> decode bs <> Panic /\ decode_dangling bs <> Panic.
Proof.
  intros bs Hb. apply is_bytes_ok in Hb. split; [apply decode_no_panic|apply decode_dangling_no_panic]; assumption.
Qed.

Theorem C26_decode_total :
  forall bs, is_bytes bs = true -> (exists e, decode bs = Ok e) \/ (exists err, decode bs = Err err).
Proof.
  intros bs Hb. apply is_bytes_ok in Hb. pose proof (decode_no_panic bs Hb).
  destruct (decode bs); [left|right|congruence]; eauto.
Qed.

(* What decode returns is well formed (header consistent with body, counts within limits). *)
Theorem C26_decoded_well_formed :
  forall bs e, is_bytes bs = true -> decode bs = Ok e -> wf_eof e.
Proof. intros bs e Hb H. apply is_bytes_ok in Hb. apply (decode_roundtrip bs e Hb H). Qed.

(* Converse: a well-formed container encodes to bytes that decode to the same container. *)
Theorem C26_encode_decode :
  forall e, wf_eof e -> decode (encode_slow e) = Ok e.
Proof. exact decode_complete. Qed.

(* decode_dangling splits exactly at eof_size: the first part is a container that decodes on its
   own to the same value and has a full data section, the rest is returned untouched. *)
Theorem C26_dangling_splits_at_eof_size :
  forall bs e d, is_bytes bs = true -> decode_dangling bs = Ok (e, d) ->
    bs = raw e ++ d /\ len (raw e) = eof_size (header e) /\ decode (raw e) = Ok e /\
    is_data_filled (body e) = true.
Proof. intros bs e d Hb. apply is_bytes_ok in Hb. apply decode_dangling_spec. assumption. Qed.

Theorem C26_dangling_accepts_every_extension :
  forall bs e d, is_bytes bs = true -> decode bs = Ok e -> is_data_filled (body e) = true ->
    decode_dangling (bs ++ d) = Ok (e, d).
Proof. intros bs e d Hb. apply is_bytes_ok in Hb. apply decode_dangling_complete. assumption. Qed.

(* Decode-level facts the interpreter relies on: one types entry per code section, 1..1024
   non-empty code sections, at most 256 non-empty sub-containers, and the bounds used by
   RETURNCONTRACT's usize subtractions and by its patch of the data_size field. *)
Theorem C26_decode_section_counts :
  forall bs e, is_bytes bs = true -> decode bs = Ok e ->
    len (types_section (body e)) = len (code_section (body e)) /\
    1 <= len (code_section (body e)) <= 1024 /\
    len (container_section (body e)) <= 256 /\
    Forall (fun c => 1 <= len c <= 65535) (code_section (body e)) /\
    Forall (fun c => 1 <= len c <= 65535) (container_section (body e)) /\
    len bs <= eof_size (header e) /\ eof_size (header e) - len bs <= data_size (header e) /\
    0 <= data_size_raw_i (header e) /\ data_size_raw_i (header e) + 2 <= len bs.
Proof. intros bs e Hb. apply is_bytes_ok in Hb. apply decode_section_counts. assumption. Qed.

(* Validation is a function of the container bytes and the expected code type: equal inputs
   (a clone) give the equal verdict. (In the model this is true by construction; on the
   implementation the harness calls the validator twice, the second time on a fresh copy.) *)
Theorem C26_validation_is_a_function :
  forall bs bs' k, bs = bs' -> validate_raw_eof_inner bs k = validate_raw_eof_inner bs' k.
Proof. intros bs bs' k ->. reflexivity. Qed.

(* What acceptance implies at the decode level: the bytes decode, the data section is filled,
   there is exactly one types entry per code section (1..1024 of them), at most 256
   sub-containers, and the first section has the signature (0 inputs, non-returning). *)
Theorem C26_accepted_decode_facts :
  forall bs k, is_bytes bs = true -> validate_raw_eof_inner_r bs k = VOk tt ->
    len bs <= MAX_INITCODE_SIZE /\
    exists e, decode bs = Ok e /\ is_data_filled (body e) = true /\
      len (code_section (body e)) = len (types_section (body e)) /\
      1 <= len (code_section (body e)) <= 1024 /\ len (container_section (body e)) <= 256 /\
      (exists t0, nth_z (types_section (body e)) 0 = Some t0 /\ inputs t0 = 0 /\ outputs t0 = 128).
Proof. intros bs k Hb. apply is_bytes_ok in Hb. apply validate_accept_facts. assumption. Qed.

(* PARTIAL. A code section that validate_eof_code accepts splits into whole instructions from
   offset 0 to its end, and every CALLF/JUMPF operand on the way is < number of types entries,
   every EOFCREATE/RETURNCONTRACT operand is < number of sub-containers.
   Missing: (1) "every RJUMP/RJUMPI/RJUMPV target is an instruction start inside the section",
   the stack-height facts and "the last instruction terminates" are not proved (the model
   computes them; they are checked on every accepted case by Spec/EofSafe.container_safe inside
   the correspondence check); (2) the lifting from one section to every section of every nested
   container (validate_eof_codes / validate_eof_inner loops) is not proved. *)
Theorem C26_validated_section_operands_partial :
  forall code ds idx ncont types tr tr',
    is_bytes code = true -> validate_eof_code code ds idx ncont types tr = VOk tr' ->
    walk_ok code (len types) ncont 0.
Proof. intros code ds idx ncont types tr tr' Hb. apply is_bytes_ok in Hb. apply validate_eof_code_walk. assumption. Qed.

(* non-vacuity *)
Definition ex_container : bytes :=
  (* ef0001 010004 0200010003 030001 0014 04 0002 00 | 00800001 | 60 00 fe | sub | data *)
  [239;0;1; 1;0;4; 2;0;1;0;3; 3;0;1;0;20; 4;0;2; 0;  0;128;0;1;  96;0;254;
   239;0;1;1;0;4;2;0;1;0;1;4;0;0;0;0;128;0;0;254;  170;187].
Example C26_example_decodes :
  is_bytes ex_container = true /\
  exists e, decode ex_container = Ok e /\ encode_slow e = ex_container /\
            is_data_filled (body e) = true /\ len (container_section (body e)) = 1.
Proof. split; [reflexivity|]. eexists. split; [vm_compute; reflexivity|]. vm_compute. auto. Qed.
(* a container whose data section is shorter than declared still round-trips *)
Example C26_example_truncated_data :
  let bs := firstn 48 ex_container in
  exists e, decode bs = Ok e /\ encode_slow e = bs /\ is_data_filled (body e) = false /\
            data_size (header e) = 2 /\ len (data_section (body e)) = 1.
Proof. eexists. split; [vm_compute; reflexivity|]. vm_compute. auto. Qed.
Example C26_example_dangling :
  exists e, decode_dangling (ex_container ++ [1;2;3]) = Ok (e, [1;2;3]) /\ raw e = ex_container.
Proof. eexists. split; vm_compute; reflexivity. Qed.

(* ex_container never touches its sub-container, so validation rejects it (SubContainerNotAccessed);
   a container that is accepted as init code: one section PUSH0 PUSH0 REVERT *)
Definition ex_accepted : bytes :=
  [239;0;1; 1;0;4; 2;0;1;0;3; 4;0;0; 0;  0;128;0;2;  95;95;253].
Example C26_example_accepted :
  validate_raw_eof_inner_r ex_accepted (Some ReturnContract) = VOk tt /\
  validate_raw_eof_inner ex_container (Some ReturnContract) = VKnown (200 + 31) /\
  match decode ex_accepted with Ok e => container_safe 10 e | _ => false end = true /\
  walk_ok [95;95;253] 1 0 0.
Proof.
  split; [vm_compute; reflexivity|]. split; [vm_compute; reflexivity|].
  split; [vm_compute; reflexivity|].
  eapply walk_step with (j := 1); [reflexivity|vm_compute; reflexivity|lia| |].
  { intros op E. vm_compute in E. inversion E. split; intros [?|?]; discriminate. }
  eapply walk_step with (j := 2); [reflexivity|vm_compute; reflexivity|lia| |].
  { intros op E. vm_compute in E. inversion E. split; intros [?|?]; discriminate. }
  eapply walk_step with (j := 3); [reflexivity|vm_compute; reflexivity|lia| |].
  { intros op E. vm_compute in E. inversion E. split; intros [?|?]; discriminate. }
  apply walk_end. vm_compute. discriminate.
Qed.
