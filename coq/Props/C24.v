(* C24 — alternative cryptographic backends agree.
   The theorem below is the algebraic reason why the k256 path (normalize_s + recovery-id flip)
   returns the same key as the secp256k1 path; that the two compiled backends (and c-kzg /
   kzg-rs) agree on concrete inputs is established by the correspondence check (Corr/C24.v),
   which executes both builds.  KZG proof verification is opaque. *)
From RevmV Require Import Base.Word Model.Curves Proofs.BackendProofs.
Local Open Scope Z_scope.

Theorem C24_k256_normalization_recovers_same_key :
  forall (G : Type) (zero : G) (add : G -> G -> G) (neg : G -> G) (smul : Z -> G -> G),
    (forall a b c, add a (add b c) = add (add a b) c) ->
    (forall a b, add a b = add b a) ->
    (forall a, add zero a = a) ->
    (forall a, add a (neg a) = zero) ->
    (forall a b P, smul (a + b) P = add (smul a P) (smul b P)) ->
    (forall a P, smul (- a) P = neg (smul a P)) ->
    (forall a P, smul a (neg P) = neg (smul a P)) ->
    forall n rinv s z R Gen,
      smul n R = zero ->
      smul rinv (sub G add neg (smul (n - s) (neg R)) (smul z Gen)) =
      smul rinv (sub G add neg (smul s R) (smul z Gen)).
Proof. intros G zero add neg smul A1 A2 A3 A4 A5 A6 A7 n rinv s z R Gen Hn.
  exact (k256_normalization_recovers_same_key G zero add neg smul A1 A2 A3 A4 A5 A6 A7 n rinv s z R Gen Hn). Qed.

Theorem C24_normalized_s_flipped_point :
  forall (G : Type) (zero : G) (add : G -> G -> G) (neg : G -> G) (smul : Z -> G -> G),
    (forall a b c, add a (add b c) = add (add a b) c) ->
    (forall a b, add a b = add b a) ->
    (forall a, add zero a = a) ->
    (forall a, add a (neg a) = zero) ->
    (forall a b P, smul (a + b) P = add (smul a P) (smul b P)) ->
    (forall a P, smul (- a) P = neg (smul a P)) ->
    (forall a P, smul a (neg P) = neg (smul a P)) ->
    forall n s R, smul n R = zero -> smul (n - s) (neg R) = smul s R.
Proof. intros G zero add neg smul A1 A2 A3 A4 A5 A6 A7 n s R Hn.
  exact (normalized_s_flipped_point G zero add neg smul A1 A2 A3 A4 A5 A6 A7 n s R Hn). Qed.

(* flipping the recovery id selects the other square root, which is the negated point *)
Theorem C24_recovery_id_flip_negates_R :
  forall y, 0 < y < secp_p ->
    Z.odd (secp_p - y) = negb (Z.odd y) /\ fsub secp_F 0 y = secp_p - y.
Proof. intros y H. split; [apply other_root_parity|apply fsub_zero_is_neg]; exact H. Qed.

(* non-vacuity: the group laws hold in Z/7Z and 7.R = 0 there; the conclusion is checked on it *)
Example C24_group_hypotheses_satisfiable :
  forallb (fun a => forallb (fun b =>
     (z7_add a b =? z7_add b a) && (z7_add 0 (a mod 7) =? a mod 7) && (z7_add a (z7_neg a) =? 0) &&
     (z7_smul (a + b) 3 =? z7_add (z7_smul a 3) (z7_smul b 3)) && (z7_smul 7 a =? 0) &&
     (z7_smul (7 - a) (z7_neg 3) =? z7_smul a 3)) [0; 1; 2; 3; 4; 5; 6]) [0; 1; 2; 3; 4; 5; 6] = true.
Proof. vm_compute. reflexivity. Qed.
