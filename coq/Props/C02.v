(* C02 — a transaction is rejected with a validation error iff it breaks a validity rule of its
   hardfork; a rejected transaction changes nothing.
   Only statements; proofs in Proofs/EnvelopeProofs.v (stage lemmas) and Proofs/ValidationProofs.v.
   Model: Model/Envelope.v (validate_block_env, validate_tx, validate_initial_tx_gas,
   validate_tx_against_state, preverify, transact_validate/clear); specification: Spec/ValidSpec.v
   (Spec.valid over typed transactions, written from the EIPs); mapping typed tx -> TxEnv:
   Model/TypedTx.v. *)
From RevmV Require Import Base.Word Model.Envelope Spec.ValidSpec Model.TypedTx
  Proofs.EnvelopeProofs Proofs.ValidationProofs.
Local Open Scope Z_scope.

(* (i) For every SpecId value, chain configuration, block, typed transaction
   (legacy / 2930 / 1559 / 4844 / 7702, all field values in their machine ranges) and sender
   account: the validation pipeline of Evm::transact accepts iff every rule of Spec.valid holds.
   in_domain excludes only EIP-1559 transactions before LONDON (DESIGN.md note 6.4). *)
Theorem C02_accepts_iff_valid :
  forall spec c b t s,
    wf_cfg c -> wf_block b -> wf_tx t -> wf_sender s -> in_domain spec t ->
    (preverify spec (mkEnv c b (to_tx_env t)) s = VOk <-> Spec.valid (ctx_of spec c b s) t).
Proof. exact preverify_ok_iff_valid. Qed.

Theorem C02_rejects_iff_rule_broken :
  forall spec c b t s,
    wf_cfg c -> wf_block b -> wf_tx t -> wf_sender s -> in_domain spec t ->
    (preverify spec (mkEnv c b (to_tx_env t)) s <> VOk <-> ~ Spec.valid (ctx_of spec c b s) t).
Proof. exact preverify_rejects_iff_invalid. Qed.

(* the rejection is always a validation error (header or transaction), never the
   `expect("already checked")` of validate_tx — for every environment, typed or not *)
Theorem C02_never_panics : forall spec e a, preverify spec e a <> VPanic.
Proof. exact preverify_no_panic. Qed.

(* the stages separately (which rule answers for which check) *)
Theorem C02_gas_stage :
  forall spec c b t, wf_tx t ->
    (validate_initial_tx_gas spec (mkEnv c b (to_tx_env t)) = None <->
     Spec.intrinsic_gas spec t <= Spec.gas_limit (Spec.common_of t) /\
     (Spec.PRAGUE <= spec -> Spec.floor_gas t <= Spec.gas_limit (Spec.common_of t))).
Proof. exact stage_gas. Qed.

Theorem C02_sender_stage :
  forall spec c b t s, wf_cfg c -> wf_tx t -> wf_sender s ->
    match t with Spec.Eip4844 _ _ _ _ _ _ _ => CANCUN <= spec | _ => True end ->
    ((exists bal, validate_tx_against_state spec (mkEnv c b (to_tx_env t)) s = inr bal) <->
     Spec.sender_ok (ctx_of spec c b s) t).
Proof. exact stage_sender. Qed.

(* the wrapping `basefee + priority_fee` of effective_gas_price does not change the decision:
   whenever the EIP-1559 fee rules, the intrinsic-gas rule and the balance rule hold, the
   comparison the code makes succeeds *)
Theorem C02_fee_wrap_harmless :
  forall spec c b t s, wf_block b -> wf_tx t -> wf_sender s ->
    Spec.fee_ok (ctx_of spec c b s) t -> Spec.gas_limit_ok (ctx_of spec c b s) t ->
    Spec.sender_ok (ctx_of spec c b s) t ->
    LONDON <= spec -> b_basefee b <= effective_gas_price (mkEnv c b (to_tx_env t)).
Proof. intros spec c b t s WB WT WS F G S L. exact (proj2 (fee_model_of_valid spec c b t s WB WT WS F G S L)). Qed.

(* (ii) a rejected transaction changes nothing: starting from an instance between transactions
   (fresh, or left by any earlier transact), Evm::transact on a rejected transaction returns the
   validation error, leaves journaled state and error slot as they were, and has called the
   database only through the two read calls for the caller account; no commit. *)
Theorem C02_reject_no_effect :
  forall (D : Type) (db_basic : D -> Z -> D * option sender) (db_code_by_hash : D -> Z -> D)
         spec e caller (i i' : inst D) o,
    idle D i ->
    transact_validate D db_basic db_code_by_hash spec e caller i = inl (i', o) ->
    o <> VOk /\
    i_js D i' = i_js D i /\ i_error D i' = i_error D i /\
    (exists reads, i_calls D i' = reads ++ i_calls D i /\ only_reads reads /\
                   Forall (fun cl => cl = DbBasic caller \/ cl = DbCodeByHash caller) reads) /\
    (i_db D i' = i_db D i \/
     i_db D i' = fst (db_basic (i_db D i) caller) \/
     i_db D i' = db_code_by_hash (fst (db_basic (i_db D i) caller)) caller).
Proof. exact reject_no_effect. Qed.

Theorem C02_reject_identity :
  forall (D : Type) (db_basic : D -> Z -> D * option sender) (db_code_by_hash : D -> Z -> D)
         spec e caller (i i' : inst D) o,
    (forall d a, fst (db_basic d a) = d) -> (forall d a, db_code_by_hash d a = d) ->
    idle D i -> transact_validate D db_basic db_code_by_hash spec e caller i = inl (i', o) ->
    i_js D i' = i_js D i /\ i_error D i' = i_error D i /\ i_db D i' = i_db D i.
Proof. exact reject_identity. Qed.

(* every instance is idle after transact's clear, and a fresh one is; the decision transact takes
   is preverify on the account the database holds *)
Theorem C02_idle_after_clear : forall D (i : inst D), idle D (clear D i).
Proof. exact clear_idle. Qed.
Theorem C02_fresh_idle : forall D (d : D), idle D (mkInst D (js_new 255) false d []).
Proof. exact fresh_idle. Qed.
Theorem C02_transact_decides_as_preverify :
  forall (D : Type) (db_basic : D -> Z -> D * option sender) (db_code_by_hash : D -> Z -> D)
         spec e caller (i : inst D),
    idle D i ->
    let a := match snd (db_basic (i_db D i) caller) with Some a => a | None => not_existing end in
    match transact_validate D db_basic db_code_by_hash spec e caller i with
    | inl (_, o) => preverify spec e a = o
    | inr _ => preverify spec e a = VOk
    end.
Proof. exact transact_validate_decision. Qed.

(* ---- non-vacuity *)
Definition ex_cfg := mainnet_cfg 1.
Definition ex_block := mkBlock 30000000 7 true (Some 3).
Definition ex_sender := mkSender 5 (10 ^ 18) CodeEmpty.
Definition ex_blob_tx :=
  Spec.Eip4844 1 2 20 (Spec.mkCommon 5 100000 (Some 77) 1000 [0; 1; 2; 0]) [2; 0] 3 [1; 1; 1].
Definition ex_setcode_create :=
  Spec.Eip7702 1 2 20 (Spec.mkCommon 5 200000 None 0 []) [] 1.

Example C02_hypotheses_satisfiable :
  wf_cfg ex_cfg /\ wf_block ex_block /\ wf_tx ex_blob_tx /\ wf_sender ex_sender /\
  in_domain CANCUN ex_blob_tx /\ Spec.valid (ctx_of CANCUN ex_cfg ex_block ex_sender) ex_blob_tx /\
  preverify CANCUN (mkEnv ex_cfg ex_block (to_tx_env ex_blob_tx)) ex_sender = VOk.
Proof.
  assert (V : Spec.valid_b (ctx_of CANCUN ex_cfg ex_block ex_sender) ex_blob_tx = true) by (vm_compute; reflexivity).
  apply Spec.valid_b_spec in V.
  repeat split; try exact V; try (vm_compute; reflexivity); try (vm_compute; intuition discriminate);
    repeat constructor; vm_compute; intuition discriminate.
Qed.

(* rejected examples: one blob too many in CANCUN; a set-code transaction without destination *)
Example C02_rejected_examples :
  preverify CANCUN (mkEnv ex_cfg ex_block (to_tx_env
     (Spec.Eip4844 1 2 20 (Spec.mkCommon 5 100000 (Some 77) 1000 []) [] 3 [1;1;1;1;1;1;1]))) ex_sender
    = VTx (TooManyBlobs 7) /\
  preverify PRAGUE (mkEnv ex_cfg ex_block (to_tx_env ex_setcode_create)) ex_sender
    = VTx AuthorizationListInvalidFields /\
  ~ Spec.valid (ctx_of PRAGUE ex_cfg ex_block ex_sender) ex_setcode_create.
Proof.
  split; [vm_compute; reflexivity|]. split; [vm_compute; reflexivity|].
  intros V. apply Spec.valid_b_spec in V. vm_compute in V. discriminate V.
Qed.

(* the instance model is not vacuous: a rejection after the caller was loaded *)
Example C02_reject_example :
  let db_basic := fun (d : Z) (a : Z) => (d + 1, Some (mkSender 5 0 CodeEmpty)) in
  let i0 := mkInst Z (js_new 255) false 0 [] in
  exists i',
    transact_validate Z db_basic (fun d _ => d) PRAGUE
      (mkEnv ex_cfg ex_block (to_tx_env ex_blob_tx)) 9 i0
    = inl (i', VTx (LackOfFundForMaxFee 3180648 0)) /\ i_js Z i' = js_new 255 /\ i_calls Z i' = [DbBasic 9].
Proof. eexists. vm_compute. repeat split. Qed.
