(* C15 — State database reads reflect exactly the committed history.
   Only statements; proofs live in Proofs/StateDbProofs.v. The model (Model/StateDb.v,
   Model/AcctStatus.v) mirrors crates/revm/src/db/states/{account_status,cache_account,cache,state}.rs
   and is compared with the code by Corr/C15.v; the status machine is additionally reflected
   exhaustively from the compiled code (Gen/StatusTables.v). *)
From RevmV Require Import Model.AcctStatus Model.StateDb Spec.PlainStateSpec Spec.StatusSpec
  Proofs.StateDbProofs Proofs.StateLiftProofs Gen.StatusTables.
Local Open Scope Z_scope.

(* ---- the reflected status machine is the hand-written one: 8 statuses x 19 cells, exhaustive *)
Theorem C15_status_table_is_spec : gen_status_cells = spec_status_cells.
Proof. vm_compute. reflexivity. Qed.

(* the panicking (unreachable!) cells of the compiled code are exactly these six *)
Theorem C15_panicking_cells :
  filter (fun c => match snd c with None => true | Some _ => false end) gen_status_cells
  = [(3, [1], None); (4, [1; 0], None); (4, [1; 1], None);
     (3, [4], None); (4, [4; 0], None); (4, [4; 1], None)].
Proof. vm_compute. reflexivity. Qed.

(* the model of a commit is undefined only when it evaluates one of those cells *)
Theorem C15_commit_undefined_only_at_panicking_cell :
  forall ds c clear e, acc_step ds c (ACommit clear e) = None ->
    on_touched_empty_post_eip161 (ca_status c) = None \/
    exists b, on_touched_created_pre_eip161 (ca_status c) b = None.
Proof. exact commit_none_is_panic_cell. Qed.

(* ---- per-account refinement. For every database account [d] (absent or present; the F15 class
   "storage under an account without code and nonce" excluded by [DbAccOK]) and every history
   of commits of EVM outputs (each with its own state-clear setting), balance increments,
   drains and reads, all satisfying [EvmOutOK] w.r.t. the evolving reference account:
   the run is defined (no panicking status cell is reached, drain never overflows u128),
   [basic] equals the reference info (balance, nonce, code hash = AccountInfo's PartialEq) and
   every storage slot reads as in the reference. Bundle tracking does not appear: the produced
   transitions never feed back into the cache. *)
Theorem C15_account_refinement :
  forall (d : option dbacc) (h : list aop),
    DbAccOK d -> hist_ok (option_map ref_of_dbacc d) h ->
    exists c, acc_run (ds_of d) (load_acc d) h = Some c /\
      oinfo_same (cacc_basic c) (ref_basic (spec_run (option_map ref_of_dbacc d) h)) /\
      forall k, snd (cacc_storage (ds_of d) c k) = ref_storage (spec_run (option_map ref_of_dbacc d) h) k.
Proof. exact account_refinement. Qed.

(* touched empty accounts are removed once state clearing is active *)
Theorem C15_touched_empty_removed :
  forall (d : option dbacc) (h : list aop) (e : eacc),
    DbAccOK d -> hist_ok (option_map ref_of_dbacc d) (h ++ [ACommit true e]) ->
    e_touched e = true -> info_is_empty (e_info e) = true ->
    exists c, acc_run (ds_of d) (load_acc d) (h ++ [ACommit true e]) = Some c /\ cacc_basic c = None.
Proof. exact touched_empty_removed. Qed.

(* the invariant carried by the induction, for reference *)
Theorem C15_step_preserves_invariant :
  forall ds c r o, Inv ds c r -> op_ok r o = true ->
    exists c', acc_step ds c o = Some c' /\ Inv ds c' (spec_step r o).
Proof. exact step_any. Qed.

(* ---- whole State: accounts are independent. For every database [D] whose accounts satisfy
   [DbAccOK] and every history of State operations (basic / storage / code_by_hash / commit /
   increment_balances / drain_balances / set_state_clear_flag) that respects the API contract
   (storage and commit only on loaded accounts) and [EvmOutOK] w.r.t. the evolving reference
   state, the run is defined and the invariant [SInv] holds against the plain reference state
   [D (+) committed changes] ... *)
Theorem C15_state_refinement :
  forall (D : db) (clear : bool) (h : list sop),
    DbOK D -> shist_ok (state_new D clear) (ref_of_db D) h ->
    exists s, st_run (state_new D clear) h = Some s /\ SInv D s (rs_run clear (ref_of_db D) h).
Proof. exact state_refinement. Qed.

(* ... which says: every basic and storage read returns what the reference returns, and
   code_by_hash answers from the database. *)
Theorem C15_state_reads :
  forall D s rs, DbOK D -> SInv D s rs ->
    (forall a, oinfo_same (snd (st_basic s a)) (ref_basic (rs_acc rs a))) /\
    (forall a k s' v, st_storage s a k = Some (s', v) -> v = ref_storage (rs_acc rs a) k) /\
    (forall h, snd (st_code_by_hash s h) = db_code D h).
Proof. exact state_reads. Qed.

Example C15_state_history_satisfiable :
  let D := mkDb [(0xc1, mkDbAcc (mkInfo 0 1 0x11 None) [(1, 7)]); (0xa1, mkDbAcc (mkInfo 100 0 KECCAK_EMPTY None) [])]
                [(0x11, 0x0160)] in
  DbOK D /\
  shist_ok (state_new D true) (ref_of_db D)
    [OBasic 0xa1; OBasic 0xc1; OStorage 0xc1 1; OBasic 0xa2;
     OCommit [(0xa1, mkEacc (mkInfo 90 1 KECCAK_EMPTY None) [] true false false);
              (0xc1, mkEacc (mkInfo 10 1 0x11 None) [mkSlot 1 7 8] true false false);
              (0xa2, mkEacc (mkInfo 0 0 KECCAK_EMPTY None) [] true false false)];
     OStorage 0xc1 1; OIncr [(0xa3, 5)]; ODrain [0xa1]; OSetClear false; OCode 0x11].
Proof.
  split.
  - intro a. simpl.
    destruct (a =? 193); [vm_compute; split; reflexivity|].
    destruct (a =? 161); [vm_compute; split; reflexivity|]. exact I.
  - vm_compute. repeat split; try discriminate; try reflexivity.
Qed.

(* ---- recorded findings: the excluded classes are necessary *)

(* F15: the database holds storage for an account that has neither code nor nonce; after a
   balance change the unread slot answers 0 instead of 9 *)
Theorem C15_F15_db_storage_without_code_and_nonce_refuted :
  exists (d : dbacc) (h : list aop) (k : Z) (c : cacc),
    db_acc_core d = true /\ hist_ok (Some (ref_of_dbacc d)) h /\
    acc_run (ds_of (Some d)) (load_acc (Some d)) h = Some c /\
    snd (cacc_storage (ds_of (Some d)) c k) <> ref_storage (spec_run (Some (ref_of_dbacc d)) h) k.
Proof.
  exists (mkDbAcc (mkInfo 5 0 KECCAK_EMPTY (Some 1)) [(1, 9)]),
         [ACommit true (mkEacc (mkInfo 6 0 KECCAK_EMPTY (Some 1)) [] true false false)], 1.
  eexists. vm_compute. repeat split; try reflexivity. discriminate.
Qed.

(* F17: before EIP-161 a created account without code and nonce keeps storage (written by its
   init code); a later zero-value touch replaces the cached storage: slot 1 reads 0 instead of 5 *)
Theorem C15_F17_pre161_touch_drops_storage_refuted :
  exists (h : list aop) (k : Z) (c : cacc),
    hist_core_ok None h /\ acc_run (ds_of None) (load_acc None) h = Some c /\
    snd (cacc_storage (ds_of None) c k) <> ref_storage (spec_run None h) k.
Proof.
  exists [ACommit false (mkEacc (mkInfo 0 0 KECCAK_EMPTY (Some 1)) [mkSlot 1 0 5] true true false);
          ACommit false (mkEacc (mkInfo 0 0 KECCAK_EMPTY (Some 1)) [] true false false)], 1.
  eexists. vm_compute. repeat split; try reflexivity. discriminate.
Qed.

(* F18: code deployed through this State is not answered by State::code_by_hash (it is carried
   inline by [basic]); the reference knows it *)
Theorem C15_F18_code_by_hash_misses_new_code_refuted :
  exists (D : db) (a h code : Z) (l : list (Z * eacc)) (s1 s2 : state) (ts : list (Z * transition_account)),
    st_basic (state_new D true) a = (s1, None) /\ st_commit s1 l = Some (s2, ts) /\
    option_map i_code (snd (st_basic s2 a)) = Some (Some code) /\
    rs_code (rs_commit true (ref_of_db D) l) h = code /\
    snd (st_code_by_hash s2 h) <> code.
Proof.
  exists (mkDb [] []), 0xca, 0x77, 0x01602a00,
         [(0xca, mkEacc (mkInfo 0 1 0x77 (Some 0x01602a00)) [] true true false)].
  eexists. eexists. eexists. vm_compute. repeat split; try reflexivity. discriminate.
Qed.

(* ---- non-vacuity *)
Example C15_EvmOutOK_satisfiable :
  let d := mkDbAcc (mkInfo 7 1 0x1234 None) [(1, 7); (2, 9)] in
  DbAccOK (Some d) /\
  hist_ok (Some (ref_of_dbacc d))
    [AStorage 1;
     ACommit true (mkEacc (mkInfo 8 1 0x1234 None) [mkSlot 1 7 0; mkSlot 2 9 9; mkSlot 3 0 4] true false false);
     AIncr 5; AStorage 3;
     ACommit true (mkEacc (mkInfo 0 1 0x1234 None) [] true false true);
     ACommit true (mkEacc (mkInfo 3 0 KECCAK_EMPTY (Some 1)) [] true false false);
     ACommit true (mkEacc (mkInfo 3 1 0x99 (Some 0x0100)) [mkSlot 5 0 6] true true false);
     ADrain;
     ACommit true (mkEacc (mkInfo 0 1 0x99 None) [mkSlot 5 6 0] true false false)].
Proof. vm_compute. repeat split; reflexivity. Qed.

Example C15_EvmOutOK_satisfiable_pre161 :
  DbAccOK None /\
  hist_ok None
    [ACommit false (mkEacc (mkInfo 0 0 KECCAK_EMPTY (Some 1)) [] true false false);
     ACommit false (mkEacc (mkInfo 0 0 KECCAK_EMPTY None) [] true false false);
     ACommit false (mkEacc (mkInfo 4 0 KECCAK_EMPTY None) [] true false false);
     ACommit true (mkEacc (mkInfo 0 0 KECCAK_EMPTY None) [] true false true)].
Proof. vm_compute. repeat split; reflexivity. Qed.
