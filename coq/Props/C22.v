(* C22 — disabling the beneficiary reward is honoured and survives reconfiguration.
   Only statements, closed by [exact]; proofs live in Proofs/HandlerProofs.v. *)
From RevmV Require Import Base.Word Model.Gas Model.Handler Proofs.HandlerProofs.
Local Open Scope Z_scope.

(* Persistence. For every build configuration [fe], every handler [h] whose registers are
   compatible with its reward setting (they leave the reward handle alone, or assign one of the
   same presence, as the Optimism register of a handler built with that flag does) and every
   sequence of reconfigurations [ops] without a documented reset in which the user only adds
   compatible registers and only installs well-formed handlers: the reward handle is present
   after the sequence iff it is present in the handler the user installed last (or in [h]),
   and the resulting handler is again well formed. *)
Theorem C22_reward_flag_invariant :
  forall (fe : features) (ops : list op) (h : handler),
    wf h = true -> ops_ok (reward_on h) ops = true ->
    reward_on (run fe h ops) = installed_flag (reward_on h) ops /\ wf (run fe h ops) = true.
Proof. exact reward_flag_invariant. Qed.

(* ... and after every prefix of such a sequence *)
Theorem C22_reward_flag_invariant_prefix :
  forall (fe : features) (ops1 ops2 : list op) (h : handler),
    wf h = true -> ops_ok (reward_on h) (ops1 ++ ops2) = true ->
    reward_on (run fe h ops1) = installed_flag (reward_on h) ops1.
Proof. exact reward_flag_invariant_prefix. Qed.

(* the two constructors a user starts from satisfy the hypothesis, with the flag they were given *)
Theorem C22_mainnet_with_spec_wf :
  forall fe s b, wf (mainnet_with_spec fe s b) = true /\ reward_on (mainnet_with_spec fe s b) = b.
Proof. intros. split; [apply wf_mainnet | apply reward_on_mainnet]. Qed.

Theorem C22_optimism_with_spec_wf :
  forall fe s b, wf (optimism_with_spec fe s b) = true /\ reward_on (optimism_with_spec fe s b) = b.
Proof. intros. split; [apply wf_optimism | apply reward_on_optimism]. Qed.

(* Arbitrary registers (also ones that assign the reward handle): every handler reachable from
   the constructors is [consistent], and on a consistent handler a hardfork change and a generic
   rebuild keep the setting whatever the registers do; popping a register that does not assign the
   reward handle keeps it too. *)
Theorem C22_consistent_reachable :
  forall fe ops h, consistent h -> installs_consistent ops -> consistent (run fe h ops).
Proof. exact consistent_run. Qed.

Theorem C22_constructors_consistent :
  forall fe s b o, consistent (mainnet_with_spec fe s b) /\ consistent (optimism_with_spec fe s b)
                   /\ consistent (handler_new fe s o).
Proof. intros. split; [apply consistent_mainnet|]. split; [apply consistent_optimism | apply consistent_handler_new]. Qed.

Theorem C22_modify_spec_id_keeps_flag :
  forall fe h s, consistent h -> reward_on (modify_spec_id fe h s) = reward_on h.
Proof. exact modify_spec_id_keeps_flag. Qed.

Theorem C22_create_handle_generic_keeps_flag :
  forall fe h s, consistent h -> reward_on (fst (create_handle_generic fe h s)) = reward_on h.
Proof. exact create_handle_generic_keeps_flag. Qed.

Theorem C22_pop_neutral_keeps_flag :
  forall fe h regs r, consistent h -> h_regs h = regs ++ [r] -> r_eff r = KeepsReward ->
    reward_on (fst (pop_handle_register fe h)) = reward_on h.
Proof. exact pop_neutral_keeps_flag. Qed.

(* the hardfork change does what it is for, and keeps the Optimism marker *)
Theorem C22_modify_spec_id_spec :
  forall fe h s, h_spec (modify_spec_id fe h s) = s /\ h_optimism (modify_spec_id fe h s) = h_optimism h.
Proof. intros. split; [apply modify_spec_id_sets_spec | apply modify_spec_id_keeps_optimism]. Qed.

(* Documented resets — outside the property's "reconfiguration": EvmBuilder::{reset_handler,
   reset_handler_with_empty_db, reset_handler_with_db, reset_handler_with_ref_db,
   reset_handler_with_external_context, reset_handler_with_mainnet}, the SetGenericStage methods
   {with_empty_db, with_db, with_ref_db, with_external_context, with_handler_cfg,
   with_env_with_handler_cfg, with_cfg_env_with_handler_cfg, with_context_with_handler_cfg,
   optimism, mainnet} (hence the round trip through Evm::into_context_with_handler_cfg): each
   replaces the handler by the default one, whose reward handle is present. *)
Theorem C22_documented_resets_turn_reward_on :
  forall fe h k, reward_on (reset fe h k) = true.
Proof. exact reset_turns_reward_on. Qed.

(* Settlement. Post-execution with reward handle [r] is post-execution without a reward handle
   followed by the reward step: gas used, refund, the caller's reimbursement and every earlier
   write are the same function of the same inputs. *)
Theorem C22_post_execution_factor :
  forall custom db e r g x fl s,
    post_execution custom db e r g x fl s =
    (let '(used, refd, s_off) := post_execution custom db e None g x fl s in
     (used, refd, reward_step custom db e used r s_off)).
Proof. exact post_execution_factor. Qed.

(* With the handle absent nobody is credited; with the mainnet or Optimism handle the result is
   the same and the final states agree on every address that is not a fee recipient. *)
Theorem C22_settlement_off_vs_on :
  forall custom db e r g x fl s,
    (forall id, r <> Some (CustomReward id)) ->
    let '(u_on, rf_on, s_on) := post_execution custom db e r g x fl s in
    let '(u_off, rf_off, s_off) := post_execution custom db e None g x fl s in
    u_on = u_off /\ rf_on = rf_off /\
    (forall a, ~ In a (beneficiaries e r) -> jget s_on a = jget s_off a).
Proof. exact settlement_off_vs_on. Qed.

(* Mainnet: the two final states differ exactly by the (saturating) credit to the coinbase. *)
Theorem C22_settlement_mainnet_coinbase :
  forall custom db e g x fl s,
    p_reward_disabled e = false ->
    let '(u, _, s_on) := post_execution custom db e (Some MainnetReward) g x fl s in
    let '(_, _, s_off) := post_execution custom db e None g x fl s in
    jget s_on (p_coinbase e) =
      Some (mkAcct (sat256 (cur_bal db s_off (p_coinbase e) + wrap256 (coinbase_gas_price e * u))) true)
    /\ (forall a, a <> p_coinbase e -> jget s_on a = jget s_off a).
Proof. exact settlement_mainnet_coinbase. Qed.

(* CfgEnv::disable_beneficiary_reward (feature optional_beneficiary_reward) switches the reward
   off whatever handle is installed: the whole post-execution equals the one without a handle. *)
Theorem C22_settlement_cfg_disabled :
  forall custom db e r g x fl s,
    p_reward_disabled e = true ->
    post_execution custom db e r g x fl s = post_execution custom db e None g x fl s.
Proof. exact settlement_cfg_disabled. Qed.

Theorem C22_settlement_off_skips_reward :
  forall custom db e g x fl s,
    snd (post_execution custom db e None g x fl s) =
    reimburse_caller db e (refund_and_floor g x fl (p_london e)) s.
Proof. exact settlement_off_skips. Qed.

(* ------------------------------------------------------------------ examples *)

Definition fe0 : features := mkFeat true false (fun s => s).
Definition neutral_plain := mkReg Plain KeepsReward.
Definition neutral_box := mkReg Boxed KeepsReward.

(* non-vacuity: a non-trivial sequence on an Optimism handler built without rewards meets the
   hypotheses, and the flag is off at the end (computed) *)
Example C22_hypotheses_satisfiable :
  let h := optimism_with_spec fe0 17 false in
  let ops := [ModifySpecId ViaBuilder 19; Append ViaBuilder neutral_plain; Append ViaHandler neutral_box;
              Pop; CreateGeneric 11; ModifyBuild; ModifySpecId ViaEvm 17; Pop] in
  wf h = true /\ ops_ok (reward_on h) ops = true /\ reward_on (run fe0 h ops) = false
  /\ length (h_regs (run fe0 h ops)) = 1%nat.
Proof. vm_compute. repeat split. Qed.

(* a documented reset is not covered: it turns rewards back on *)
Example C22_reset_not_covered :
  ops_ok false [Reset ResetHandler] = false
  /\ reward_on (run fe0 (mainnet_with_spec fe0 17 false) [Reset ResetHandler]) = true.
Proof. vm_compute. split; reflexivity. Qed.

(* Registers that assign the reward handle are the user's own setting: the rebuild starts from
   the setting in force, so popping the register that switched rewards on does not switch them
   off again (and vice versa). Recorded behaviour, outside the property. *)
Example C22_pop_of_assigning_register_is_sticky :
  let on := mkReg Boxed (SetsReward (Some (CustomReward 1))) in
  let off := mkReg Boxed (SetsReward None) in
  reward_on (run fe0 (mainnet_with_spec fe0 17 false) [Append ViaHandler on; Pop]) = true
  /\ reward_on (run fe0 (mainnet_with_spec fe0 17 true) [Append ViaHandler off; Pop]) = false.
Proof. vm_compute. split; reflexivity. Qed.

(* settlement example: 21000 gas at price 10 with base fee 3 under LONDON: the coinbase entry is
   the only difference, 7 * 21000 *)
Example C22_settlement_example :
  let e := mkPenv 1 2 10 3 true false 0 0 false in
  let g := mkGas 100000 79000 0 in
  let s := [(1, mkAcct 1000000 true)] in
  post_execution (fun _ s => s) (fun _ => 5) e None g 0 0 s = (21000, 0, [(1, mkAcct 1790000 true)])
  /\ post_execution (fun _ s => s) (fun _ => 5) e (Some MainnetReward) g 0 0 s
     = (21000, 0, [(1, mkAcct 1790000 true); (2, mkAcct 147005 true)])
  /\ post_execution (fun _ s => s) (fun _ => 5) (mkPenv 1 2 10 3 true false 0 0 true) (Some MainnetReward) g 0 0 s
     = (21000, 0, [(1, mkAcct 1790000 true)]).
Proof. vm_compute. repeat split; reflexivity. Qed.
