(* C28 — attaching an observing inspector does not change execution.
   Statements only; proofs in Proofs/InspectorTransparentProofs.v; model in
   Model/InspectorTransparent.v; reflected table Gen/ResultClass.v. *)
From RevmV Require Import Base.Word Model.Gas Gen.ResultClass Spec.ResultClassSpec
  Model.InspectorTransparent Proofs.InspectorTransparentProofs.
Local Open Scope Z_scope.

(* The instruction wrapper (ip-1, step, ip+1, instruction, step_end) with callbacks that leave
   interpreter and context as they found them is the unwrapped instruction, for every machine
   state in which the interpreter loop dispatches an instruction (result = Continue) and every
   instruction. *)
Theorem C28_wrapped_instruction_is_instruction :
  forall (S X : Type) (step_h step_end_h : hook S X) (prev : instruction S) (m : machine S) (x : X),
    observing S X step_h -> observing S X step_end_h -> res S m = 0 ->
    fst (inspector_instruction S X step_h step_end_h prev m x) = prev m.
Proof. exact wrapper_transparent. Qed.

(* The whole interpreter loop over the table installed by inspector_handle_register (step
   wrapper on every opcode, LOG and SELFDESTRUCT wrappers on top) computes the same machine
   state as over the plain table: every start state, every table, every number of steps. *)
Theorem C28_run_with_observing_inspector :
  forall (S X : Type) (fetch : machine S -> Z) (step_h step_end_h log_h : hook S X)
         (logs_len : machine S -> Z) (notify : machine S -> machine S -> X -> X)
         (table : Z -> instruction S),
    observing S X step_h -> observing S X step_end_h -> observing S X log_h ->
    forall (fuel : nat) (m : machine S) (x : X),
      fst (run_inspected S X fetch fuel
             (registered_table S X step_h step_end_h log_h logs_len notify table) m x)
      = run S fetch fuel table m.
Proof. exact run_registered_transparent. Qed.

(* The replaced frame handlers: with a call/create/eofcreate hook that returns None and leaves
   context and inputs alone, and an initialize_interp hook that leaves frame and context alone,
   the handler returns what the original handler returns; with an *_end hook that returns the
   outcome it was given, insert_*_outcome / last_frame_return receive what they would have. *)
Theorem C28_frame_open_handler_transparent :
  forall (Ctx Inputs Outcome Frame X : Type)
         (h : open_hook Ctx Inputs Outcome X) (init : init_hook Ctx Frame X)
         (prev : handler Ctx Inputs Outcome Frame) c i x,
    observing_open Ctx Inputs Outcome X h -> observing_init Ctx Frame X init ->
    fst (wrapped_open Ctx Inputs Outcome Frame X h init prev c i x) = prev c i.
Proof. exact wrapped_open_transparent. Qed.

Theorem C28_frame_end_handler_transparent :
  forall (Ctx Inputs Outcome X R : Type) (e : end_hook Ctx Inputs Outcome X)
         (prev_insert : Ctx -> Outcome -> R) c i o x,
    (forall c i o x, fst (e c i o x) = (c, o)) ->
    fst (wrapped_insert Ctx Inputs Outcome X e prev_insert c i o x) = prev_insert c o.
Proof. intros. apply wrapped_insert_transparent. assumption. Qed.

(* The reflected classification of InstructionResult is the specified one. *)
Theorem C28_result_table_is_spec : result_table = spec_table.
Proof. exact gen_table_is_spec. Qed.

(* Every variant: error results are neither ok nor revert (over all discriminants). *)
Theorem C28_error_class_exclusive :
  forall d, is_error d = true -> is_ok d = false /\ is_revert d = false.
Proof. exact error_excl. Qed.

(* GasInspector (and TracerEip3155, which delegates to it) rewrites the gas of error outcomes;
   what the calling frame's gas becomes (insert_call_outcome / insert_create_outcome) and what
   last_frame_return computes is the same with and without that rewriting: every result
   discriminant, every parent gas, every outcome gas. *)
Theorem C28_gas_inspector_rewriting_unobservable_in_frame :
  forall parent r og,
    insert_outcome_gas parent (gas_inspector_end (r, og)) = insert_outcome_gas parent (r, og).
Proof. exact gas_inspector_insert_same. Qed.

Theorem C28_gas_inspector_rewriting_unobservable_at_top :
  forall tx_gas_limit r og,
    last_frame_return_gas tx_gas_limit (gas_inspector_end (r, og)) = last_frame_return_gas tx_gas_limit (r, og).
Proof. exact gas_inspector_last_frame_same. Qed.

Theorem C28_gas_inspector_keeps_result : forall o, fst (gas_inspector_end o) = fst o.
Proof. exact gas_inspector_result_same. Qed.

(* non-vacuity: a non-observing step hook does change the run (so [observing] is needed), and
   the rewriting is a real change of the outcome *)
Example C28_nonobserving_hook_differs :
  let bad : hook unit unit := fun m x => (mkM unit (ip unit m) 1 (rest unit m), x) in
  let id_h : hook unit unit := fun m x => (m, x) in
  fst (inspector_instruction unit unit bad id_h (fun m => set_ip unit m 77) (mkM unit 5 0 tt) tt)
  <> (fun m => set_ip unit m 77) (mkM unit 5 0 tt).
Proof. vm_compute. discriminate. Qed.

Example C28_rewriting_is_real :
  gas_inspector_end (0x50, mkGas 100 40 0) = (0x50, mkGas 100 0 0) /\
  insert_outcome_gas (mkGas 1000 500 0) (0x50, mkGas 100 40 0) = Some (mkGas 1000 500 0) /\
  insert_outcome_gas (mkGas 1000 500 0) (0x10, mkGas 100 40 0) = Some (mkGas 1000 540 0) /\
  insert_outcome_gas (mkGas 1000 500 0) (0x02, mkGas 100 40 7) = Some (mkGas 1000 540 7).
Proof. vm_compute. repeat split. Qed.
