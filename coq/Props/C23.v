(* C23 — precompiles return the output and charge the gas their EIPs define.
   Only statements; proofs live in Proofs/PrecompileProofs.v and Base/PBytes.v.
   The hash functions, curve arithmetic and modexp of Model/ are EXECUTABLE SPECIFICATIONS
   (validated on standard vectors and against the implementation, not against another
   formalisation); BN254 pairing, KZG verification and the BLS12-381 group operations are opaque:
   for them only gas, length, encoding and failure rules are stated. *)
From RevmV Require Import Base.Word Base.PBytes Model.Modexp Model.Precompile Spec.PrecompileSpec
  Gen.BlsTables Proofs.PrecompileProofs.
Local Open Scope Z_scope.

(* ---- shared: word-priced cost and padding ---- *)
Theorem C23_linear_cost_is_yellow_paper :
  forall len base word, 0 <= len -> calc_linear_cost len base word = eip_linear_cost base word len.
Proof. exact linear_cost_eq. Qed.

Theorem C23_linear_cost_u64_exact :
  forall len base word, 0 <= len < 2 ^ 56 -> 0 <= word <= 120 -> 0 <= base <= 600 ->
  0 <= (len + 31) / 32 * word < pow64 /\ 0 <= calc_linear_cost len base word < pow64.
Proof. exact linear_cost_fits. Qed.

Theorem C23_read_past_input_is_zero :
  forall n data off, zlen data <= off -> right_pad_off n data off = zeros n.
Proof. exact right_pad_off_beyond. Qed.

Theorem C23_right_pad_bytes :
  forall n l i, (i < n)%nat -> nth i (take_pad n l) 0 = nth i l 0.
Proof. exact take_pad_nth. Qed.

Theorem C23_left_pad_keeps_value :
  forall n l, be_to_Z (zeros n ++ l) = be_to_Z l.
Proof. exact be_to_Z_left_zeros. Qed.

(* ---- identity, SHA-256, RIPEMD-160: out of gas iff cost > limit; otherwise cost and value ---- *)
Theorem C23_identity :
  forall input limit,
    (identity_run input limit = PErr E_OutOfGas <-> limit < eip_linear_cost 15 3 (zlen input)) /\
    (eip_linear_cost 15 3 (zlen input) <= limit ->
     identity_run input limit = POk (eip_linear_cost 15 3 (zlen input)) input).
Proof. intros. split; [apply identity_oog_iff|apply identity_ok]. Qed.

Theorem C23_sha256 :
  forall input limit,
    (sha256_run input limit = PErr E_OutOfGas <-> limit < eip_linear_cost 60 12 (zlen input)) /\
    (eip_linear_cost 60 12 (zlen input) <= limit ->
     sha256_run input limit = POk (eip_linear_cost 60 12 (zlen input)) (sha256 input)).
Proof. intros. split; [apply sha256_oog_iff|apply sha256_ok]. Qed.

Theorem C23_ripemd160 :
  forall input limit,
    (ripemd160_run input limit = PErr E_OutOfGas <-> limit < eip_linear_cost 600 120 (zlen input)) /\
    (eip_linear_cost 600 120 (zlen input) <= limit ->
     ripemd160_run input limit = POk (eip_linear_cost 600 120 (zlen input)) (zeros 12 ++ ripemd160 input)).
Proof. intros. split; [apply ripemd160_oog_iff|apply ripemd160_ok]. Qed.

(* ---- ecrecover ---- *)
Theorem C23_ecrecover_gas :
  forall input limit,
    (ec_recover_run input limit = PErr E_OutOfGas <-> limit < 3000) /\
    (3000 <= limit -> exists out, ec_recover_run input limit = POk 3000 out).
Proof. intros. split; [apply ecrecover_oog_iff|apply ecrecover_gas]. Qed.

Theorem C23_ecrecover_v_must_be_27_or_28 :
  forall input limit, 3000 <= limit ->
    (all_zero (slice 32 31 (take_pad 128 input)) = false \/
     (nth 63 (take_pad 128 input) 0 <> 27 /\ nth 63 (take_pad 128 input) 0 <> 28)) ->
    ec_recover_run input limit = POk 3000 [].
Proof. exact ecrecover_bad_v. Qed.

(* ---- BLAKE2F ---- *)
Theorem C23_blake2f :
  forall input limit,
    (zlen input <> 213 -> blake2_run input limit = PErr E_Blake2WrongLength) /\
    (zlen input = 213 -> (blake2_run input limit = PErr E_OutOfGas <-> limit < be_to_Z (slice 0 4 input))) /\
    (forall g out, blake2_run input limit = POk g out ->
       zlen input = 213 /\ g = be_to_Z (slice 0 4 input) /\ g <= limit /\
       (nth 212 input 0 = 0 \/ nth 212 input 0 = 1)).
Proof. intros. split; [apply blake2_wrong_length|split; [apply blake2_oog_iff|apply blake2_ok_gas]]. Qed.

(* ---- modexp ---- *)
Theorem C23_modexp_value :
  forall b e m, 0 <= e -> m <> 0 -> modexp b e m = b ^ e mod m.
Proof. exact modexp_spec. Qed.

Theorem C23_modexp_zero_modulus : forall b e, modexp b e 0 = 0.
Proof. exact modexp_zero_modulus. Qed.

Theorem C23_modexp_iteration_count :
  forall el hp, 0 <= el -> 0 <= hp < pow256 ->
    calculate_iteration_count el hp = Z.min (pow64 - 1) (eip2565_iteration_count el hp).
Proof. exact iteration_count_eip. Qed.

Theorem C23_modexp_berlin_gas :
  forall bl el ml hp, 0 <= bl -> 0 <= el -> 0 <= ml -> 0 <= hp < pow256 ->
    eip2565_iteration_count el hp < pow64 -> eip2565_gas bl el ml hp < pow64 ->
    berlin_gas_calc bl el ml hp = eip2565_gas bl el ml hp.
Proof. exact berlin_gas_eip. Qed.

Theorem C23_modexp_byzantium_gas :
  forall bl el ml hp, 0 <= bl -> 0 <= el -> 0 <= ml -> 0 <= hp < pow256 ->
    eip2565_iteration_count el hp < pow64 -> eip198_gas bl el ml hp < pow64 ->
    0 <= eip198_mult_complexity (Z.max ml bl) ->
    byzantium_gas_calc bl el ml hp = eip198_gas bl el ml hp.
Proof. exact byzantium_gas_eip. Qed.

(* all lengths, including those where the u64 arithmetic of the code saturates *)
Theorem C23_modexp_berlin_out_of_gas_all_lengths :
  forall bl el ml hp limit,
    0 <= bl -> 0 <= el -> 0 <= ml -> 0 <= hp < pow256 -> 1 <= Z.max bl ml ->
    0 <= limit < pow64 / 20 ->
    (limit < berlin_gas_calc bl el ml hp <-> limit < eip2565_gas bl el ml hp).
Proof. exact berlin_oog_decision. Qed.

Theorem C23_modexp_byzantium_out_of_gas_all_lengths :
  forall bl el ml hp limit,
    0 <= bl -> 0 <= el -> 0 <= ml -> 0 <= hp < pow256 -> 1 <= Z.max ml bl ->
    0 <= limit < pow64 / 20 ->
    (limit < byzantium_gas_calc bl el ml hp <-> limit < eip198_gas bl el ml hp).
Proof. exact byzantium_oog_decision. Qed.

(* without the bound on the limit the statement is false of the code (saturating u64 count):
   limits of 9.2e17 gas and more do not occur on any chain *)
Theorem C23_modexp_out_of_gas_unbounded_limit_refuted :
  exists bl el ml hp limit, 0 <= limit < pow64 /\
    ~ (limit < berlin_gas_calc bl el ml hp <-> limit < eip2565_gas bl el ml hp).
Proof. exact berlin_oog_decision_unbounded_refuted. Qed.

(* ---- BN254 ---- *)
Theorem C23_bn_prices :
  forall spec len,
    bn_add_gas spec = eip_bn_add_gas (2 <=? spec) /\ bn_mul_gas spec = eip_bn_mul_gas (2 <=? spec) /\
    len / 192 * bn_pair_per_point spec + bn_pair_base spec = eip_bn_pair_gas (2 <=? spec) (len / 192).
Proof. intros. split; [apply bn_add_gas_eip|split; [apply bn_mul_gas_eip|apply bn_pair_gas_eip]]. Qed.

(* The G2 operand of a pairing is judged by an executable definition: on the twist
   y^2 = x^3 + 3/(9+i) over Fp2 and annihilated by the group order n. The table of two reused
   points that the evaluation consults first is exact; and a pair whose G2 part is not such a point
   makes the whole call fail whatever its G1 part is (the point at infinity included), before any
   later pair is looked at. *)
Theorem C23_bn_g2_memo_is_exact :
  forall xi xr yi yr, bn_g2_valid_memo xi xr yi yr = bn_g2_valid xi xr yi yr.
Proof. exact bn_g2_valid_memo_exact. Qed.
Theorem C23_bn_pair_invalid_g2_fails :
  forall e rest oracle t g,
    (forall n, In n (seq 0 6) -> be_to_Z (slice (32 * n) 32 e) < bn_p) ->
    ((be_to_Z (slice (32 * 0%nat) 32 e) =? 0) && (be_to_Z (slice (32 * 1%nat) 32 e) =? 0) = true \/
     on_curve bn_F 3 (be_to_Z (slice (32 * 0%nat) 32 e)) (be_to_Z (slice (32 * 1%nat) 32 e)) = true) ->
    forallb (fun n => be_to_Z (slice (32 * n) 32 e) =? 0) (seq 2 4) = false ->
    bn_g2_valid (be_to_Z (slice (32 * 2%nat) 32 e)) (be_to_Z (slice (32 * 3%nat) 32 e))
                (be_to_Z (slice (32 * 4%nat) 32 e)) (be_to_Z (slice (32 * 5%nat) 32 e)) = false ->
    bn_pair_walk (e :: rest) oracle t g = PErr E_Bn128AffineGFailedToCreate.
Proof. exact bn_pair_invalid_g2_fails. Qed.

Theorem C23_bn_out_of_gas :
  forall input cost per base limit oracle,
    (bn_run_add input cost limit = PErr E_OutOfGas <-> limit < cost) /\
    (bn_run_mul input cost limit = PErr E_OutOfGas <-> limit < cost) /\
    (bn_run_pair input per base limit oracle = PErr E_OutOfGas <-> limit < zlen input / 192 * per + base).
Proof. intros. split; [apply bn_add_oog_iff|split; [apply bn_mul_oog_iff|apply bn_pair_oog_iff]]. Qed.

(* ---- KZG, BLS12-381: prices (group operations opaque) ---- *)
Theorem C23_kzg_out_of_gas :
  forall input limit oracle, kzg_run input limit oracle = PErr E_OutOfGas <-> limit < 50000.
Proof. exact kzg_oog_iff. Qed.

Theorem C23_bls_add_out_of_gas :
  forall input limit oracle,
    (bls_g1_add_run input limit oracle = PErr E_OutOfGas <-> limit < eip2537_g1add) /\
    (bls_g2_add_run input limit oracle = PErr E_OutOfGas <-> limit < eip2537_g2add).
Proof. intros. split; [apply bls_g1_add_oog_iff|apply bls_g2_add_oog_iff]. Qed.

Theorem C23_bls_discount_tables_are_eip2537 :
  g1_discount_table = eip2537_g1_discount /\ g2_discount_table = eip2537_g2_discount.
Proof. split; [exact g1_table_eip|exact g2_table_eip]. Qed.

Theorem C23_bls_msm_gas_all_k :
  forall k, 1 <= k ->
    msm_required_gas k eip2537_g1_discount 12000 = eip2537_msm_gas eip2537_g1_discount eip2537_g1mul k /\
    msm_required_gas k eip2537_g2_discount 22500 = eip2537_msm_gas eip2537_g2_discount eip2537_g2mul k.
Proof. intros. split; [apply msm_gas_eip_g1|apply msm_gas_eip_g2]; assumption. Qed.

(* finite: the prices obtained by EXECUTING the compiled precompiles for k = 1..140 *)
Theorem C23_bls_executed_prices_k_1_to_140 :
  (length g1_msm_gas_by_k = 140%nat /\ cells_ok g1_msm_gas_by_k (eip2537_msm_gas eip2537_g1_discount eip2537_g1mul) = true) /\
  (length g2_msm_gas_by_k = 140%nat /\ cells_ok g2_msm_gas_by_k (eip2537_msm_gas eip2537_g2_discount eip2537_g2mul) = true) /\
  (length pairing_gas_by_k = 140%nat /\ cells_ok pairing_gas_by_k eip2537_pairing = true).
Proof. split; [exact executed_g1_msm_gas|split; [exact executed_g2_msm_gas|exact executed_pairing_gas]]. Qed.

(* ---- call_precompile ---- *)
Theorem C23_call_error_consumes_all_passed_gas :
  forall passed k,
    call_consumed passed (PErr k) = passed /\
    fst (fst (call_precompile passed (PErr k))) <> 0 /\ snd (call_precompile passed (PErr k)) = [].
Proof. exact call_error_consumes_all. Qed.

Theorem C23_call_success_charges_gas_used :
  forall passed g out, g <= passed ->
    call_precompile passed (POk g out) = (0, passed - g, out) /\ call_consumed passed (POk g out) = g.
Proof. exact call_success_charges_gas_used. Qed.

(* ---- non-vacuity ---- *)
Example C23_modexp_hypotheses_satisfiable :
  0 <= 32 /\ 0 <= 65537 < pow256 /\ 1 <= Z.max 32 32 /\ 0 <= 30000000 < pow64 / 20 /\
  berlin_gas_calc 32 3 32 65537 = 200 /\ byzantium_gas_calc 32 3 32 65537 = 819 /\
  eip198_gas 32 3 32 65537 = 819.
Proof. vm_compute. repeat split; congruence. Qed.
Example C23_modexp_saturating_case_covered :
  (* exp_len = 2^62: the u64 iteration count saturates, the decision is still the EIP's *)
  calculate_iteration_count 4611686018427387904 1 = pow64 - 1 /\
  eip2565_iteration_count 4611686018427387904 1 = 36893488147419102976.
Proof. vm_compute. split; reflexivity. Qed.
Example C23_precompile_run_example :
  precompile_run g1_discount_table g2_discount_table S_BERLIN 4 [1; 2; 3] 18 (PErr 0) = Some (POk 18 [1; 2; 3]) /\
  precompile_run g1_discount_table g2_discount_table S_BERLIN 4 [1; 2; 3] 17 (PErr 0) = Some (PErr E_OutOfGas) /\
  precompile_run g1_discount_table g2_discount_table S_HOMESTEAD 5 [] 1000 (PErr 0) = None.
Proof. vm_compute. repeat split. Qed.
