(* C06 — reverting to a checkpoint restores exactly the state at that checkpoint.
   Statements only; proofs in Proofs/Host*.v. Model: Model/Host.v (JournaledState). *)
From RevmV Require Import Base.Word Model.Host Proofs.HostView Proofs.HostUndo Proofs.HostGood
  Proofs.HostOps Proofs.HostRevert Proofs.HostMain.
Local Open Scope Z_scope.

(* For every database d, every well-formed journaled state s (balances are 256-bit words, created
   accounts have no storage in the database, the journal has a frame), and EVERY history h of
   load / load_delegated / touch / inc_nonce / set_code / transfer / create_account_checkpoint /
   sload / sstore / tload / tstore / log / selfdestruct / nested checkpoint / commit / revert
   operations executed after a checkpoint — within the contract under which revm calls them
   (hop_ok: set_code only on accounts with empty code; transferred values are non-negative;
   has_storage is answered truthfully for creation targets, creator <> target) — reverting the
   checkpoint succeeds and restores the whole observation: per address balance, nonce, code,
   created / selfdestructed / touched (precompile 3 after Spurious Dragon excepted) /
   loaded-as-not-existing flags, warm status, per slot original value, present value and warm
   status (an absent account or slot observes as its cold database image); transient storage;
   logs; the journal; the configuration; and the depth, up to the checkpoints the history left
   open (cps = [] for balanced histories). Balances near 2^256 are inside the statement: U256
   additions wrap and the theorem holds nevertheless. *)
Theorem C06_revert_restores :
  forall (d : db) (s : jstate) (h : list hop) s1 cp s2 cps,
    WF d s -> checkpoint s = (s1, cp) -> contract d (s1, []) h ->
    run_hops d (s1, []) h = Some (s2, cps) ->
    exists s3, checkpoint_revert s2 cp = Some s3 /\
      cview_of d s3 = cview_of d s /\ logs s3 = logs s /\ journal s3 = journal s /\
      depth s3 = depth s + Z.of_nat (length cps) /\
      spurious s3 = spurious s /\ cancun s3 = cancun s /\ warm_pre s3 = warm_pre s.
Proof. exact revert_restores. Qed.

(* Committing keeps all changes: only the depth moves. *)
Theorem C06_commit_keeps_changes :
  forall d s, cview_of d (checkpoint_commit s) = cview_of d s /\
              logs (checkpoint_commit s) = logs s /\ journal (checkpoint_commit s) = journal s /\
              depth (checkpoint_commit s) = depth s - 1.
Proof. intros d s. repeat split. Qed.

(* An outer revert also undoes committed inner frames: instance of the main theorem for
   histories of the shape  checkpoint; ...; commit. *)
Theorem C06_outer_revert_undoes_committed_inner :
  forall d s h s1 cp s2,
    WF d s -> checkpoint s = (s1, cp) -> contract d (s1, []) (HCheckpoint :: h ++ [HCommit]) ->
    run_hops d (s1, []) (HCheckpoint :: h ++ [HCommit]) = Some (s2, []) ->
    exists s3, checkpoint_revert s2 cp = Some s3 /\ cview_of d s3 = cview_of d s /\
               logs s3 = logs s /\ depth s3 = depth s.
Proof.
  intros d s h s1 cp s2 W CP C R.
  destruct (revert_restores d s _ s1 cp s2 [] W CP C R) as (s3 & A & B & L & _ & D & _).
  exists s3. cbn in D. rewrite Z.add_0_r in D. auto.
Qed.

(* Every step of a history keeps well-formedness, so the hypothesis WF can be re-established
   at any later checkpoint of the same transaction. *)
Theorem C06_wf_is_invariant :
  forall d s0 s cps o s' cps', Inv d s0 s cps -> hop_ok d s o ->
    run_hop d (s, cps) o = Some (s', cps') -> WF d s'.
Proof. intros. eapply Inv_WF. eapply Inv_hop; eauto. Qed.

(* the view-level meaning of journal_revert: undoing one entry acts on the observation only *)
Theorem C06_undo_acts_on_view :
  forall d spur e s s', spurious s = spur -> undo spur e s = Some s' ->
    cview_of d s' = undo_v spur e (cview_of d s).
Proof. exact undo_view. Qed.

(* non-vacuity: a concrete database, state and non-trivial history satisfy the hypotheses *)
Definition ex_db : db :=
  mkDb (fun a => if a =? 1 then Some (pow256 - 1, 5, 0) else if a =? 2 then Some (7, 0, 0) else None)
       (fun a k => if (a =? 1) && (k =? 0) then 9 else 0) (fun _ => None).
Definition ex_hist : list hop :=
  [HLoad 1; HLoad 2; HTransfer 1 2 5; HSstore 1 0 4; HCheckpoint; HSstore 1 0 6; HTstore 2 1 3;
   HIncNonce 2; HLog 8; HRevert; HSelfdestruct 2 1; HLoad 4; HSetCode 4 1].
Example C06_hypotheses_satisfiable :
  WF ex_db (jnew true true (fun _ => false)) /\
  contract ex_db (fst (checkpoint (jnew true true (fun _ => false))), []) ex_hist /\
  exists s2 cps, run_hops ex_db (fst (checkpoint (jnew true true (fun _ => false))), []) ex_hist = Some (s2, cps).
Proof.
  split; [|split].
  - split; [split|split].
    + intros a acc H. discriminate.
    + intros a b n c. unfold ex_db. cbn [db_basic].
      destruct (a =? 1); [intros [= <- _ _]; unfold_pows; lia|].
      destruct (a =? 2); [intros [= <- _ _]; unfold_pows; lia|discriminate].
    + intros a acc H. discriminate.
    + cbn. congruence.
  - cbn. repeat split; try lia. eexists. split; reflexivity.
  - vm_compute. eauto.
Qed.
