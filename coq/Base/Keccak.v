(* Executable Keccak-256 (the pre-NIST padding 0x01 .. 0x80 used by Ethereum), written directly
   from the Keccak reference: Keccak-f[1600] on 25 lanes of 64 bits (lane (x,y) at index
   x + 5y), rate 136 bytes, capacity 512 bits, output 32 bytes.
   Lanes are Z in [0, 2^64); bytes are Z in [0, 256).
   This file is the *definition* of keccak256 used by the development; it is validated against
   known vectors below and against the implementation's keccak256 on every correspondence case
   of C27. *)
From Coq Require Import ZArith List.
Import ListNotations.
Local Open Scope Z_scope.

Definition mask64 : Z := 0xFFFFFFFFFFFFFFFF.

Definition rol64 (x : Z) (n : Z) : Z :=
  if n =? 0 then x
  else Z.lor (Z.land (Z.shiftl x n) mask64) (Z.shiftr x (64 - n)).

Definition lane (s : list Z) (i : nat) : Z := nth i s 0.

Definition RC : list Z :=
  [0x0000000000000001; 0x0000000000008082; 0x800000000000808A; 0x8000000080008000;
   0x000000000000808B; 0x0000000080000001; 0x8000000080008081; 0x8000000000008009;
   0x000000000000008A; 0x0000000000000088; 0x0000000080008009; 0x000000008000000A;
   0x000000008000808B; 0x800000000000008B; 0x8000000000008089; 0x8000000000008003;
   0x8000000000008002; 0x8000000000000080; 0x000000000000800A; 0x800000008000000A;
   0x8000000080008081; 0x8000000000008080; 0x0000000080000001; 0x8000000080008008].

(* rotation offsets r[x][y] at index x + 5y *)
Definition ROT : list Z :=
  [ 0;  1; 62; 28; 27;
   36; 44;  6; 55; 20;
    3; 10; 43; 25; 39;
   41; 45; 15; 21;  8;
   18;  2; 61; 56; 14].

Definition idx25 : list nat := seq 0 25.

(* theta *)
Definition theta (a : list Z) : list Z :=
  let c := map (fun x => Z.lxor (lane a x) (Z.lxor (lane a (x + 5)) (Z.lxor (lane a (x + 10))
                         (Z.lxor (lane a (x + 15)) (lane a (x + 20)))))) (seq 0 5) in
  let d := map (fun x => Z.lxor (lane c ((x + 4) mod 5)) (rol64 (lane c ((x + 1) mod 5)) 1)) (seq 0 5) in
  map (fun i => Z.lxor (lane a i) (lane d (i mod 5))) idx25.

(* rho and pi: B[y, 2x+3y] = rol(A[x,y], r[x,y]); the source of destination (X,Y) is
   (x,y) = ((X + 3Y) mod 5, X) *)
Definition pi_src (j : nat) : nat :=
  let X := (j mod 5)%nat in let Y := (j / 5)%nat in (((X + 3 * Y) mod 5) + 5 * X)%nat.
Definition PI_SRC : list nat := Eval vm_compute in map pi_src idx25.

Definition rho_pi (a : list Z) : list Z :=
  map (fun s => rol64 (lane a s) (nth s ROT 0)) PI_SRC.

(* chi *)
Definition chi_idx (j : nat) : nat * nat :=
  let x := (j mod 5)%nat in let y := (j / 5)%nat in
  (((x + 1) mod 5) + 5 * y, ((x + 2) mod 5) + 5 * y)%nat.
Definition CHI_IDX : list (nat * (nat * nat)) :=
  Eval vm_compute in map (fun j => (j, chi_idx j)) idx25.

Definition chi (b : list Z) : list Z :=
  map (fun t => let '(j, (j1, j2)) := t in
                Z.lxor (lane b j) (Z.land (Z.lxor (lane b j1) mask64) (lane b j2))) CHI_IDX.

Definition iota (rc : Z) (a : list Z) : list Z :=
  match a with x :: r => Z.lxor x rc :: r | [] => [] end.

Definition round (a : list Z) (rc : Z) : list Z := iota rc (chi (rho_pi (theta a))).

Definition keccak_f (a : list Z) : list Z := fold_left round RC a.

(* ---- sponge ------------------------------------------------------------------------------ *)
Definition RATE : nat := 136.

Fixpoint le_word (bs : list Z) : Z :=            (* little-endian bytes -> number *)
  match bs with [] => 0 | b :: r => b + 256 * le_word r end.

Fixpoint lanes_of (n : nat) (bs : list Z) : list Z :=   (* n lanes of 8 bytes *)
  match n with O => [] | S k => le_word (firstn 8 bs) :: lanes_of k (skipn 8 bs) end.

Fixpoint xor_into (s blk : list Z) : list Z :=
  match s, blk with
  | x :: s', y :: b' => Z.lxor x y :: xor_into s' b'
  | _, [] => s
  | [], _ => []
  end.

Definition pad (len : nat) : list Z :=
  let q := (RATE - len mod RATE)%nat in
  if Nat.eqb q 1 then [0x81] else 0x01 :: repeat 0 (q - 2) ++ [0x80].

Fixpoint absorb (fuel : nat) (s : list Z) (bs : list Z) : list Z :=
  match fuel, bs with
  | S f, _ :: _ => absorb f (keccak_f (xor_into s (lanes_of 17 (firstn RATE bs)))) (skipn RATE bs)
  | _, _ => s
  end.

Fixpoint bytes_le (n : nat) (w : Z) : list Z :=
  match n with O => [] | S k => (w mod 256) :: bytes_le k (w / 256) end.

Definition keccak256 (msg : list Z) : list Z :=
  let padded := msg ++ pad (length msg) in
  let s := absorb (S (length padded / RATE)) (repeat 0 25) padded in
  flat_map (bytes_le 8) (firstn 4 s).

(* big-endian bytes -> number, to state digests as one literal *)
Definition be_word (bs : list Z) : Z := fold_left (fun acc b => acc * 256 + b) bs 0.

(* ---- known vectors ----------------------------------------------------------------------- *)
Example keccak256_empty :
  be_word (keccak256 []) = 0xc5d2460186f7233c927e7db2dcc703c0e500b653ca82273b7bfad8045d85a470.
Proof. vm_compute. reflexivity. Qed.

Example keccak256_abc :
  be_word (keccak256 [0x61; 0x62; 0x63]) =
  0x4e03657aea45a94fc7d47ba826c8d667c0d1e6e33a64a036ec44f58fa12d6c45.
Proof. vm_compute. reflexivity. Qed.

(* "ef01" (the EIP7702_MAGIC_HASH constant of the code base) *)
Example keccak256_ef01 :
  be_word (keccak256 [0xef; 0x01]) =
  0xeadcdba66a79ab5dce91622d1d75c8cff5cff0b96944c3bf1072cd08ce018329.
Proof. vm_compute. reflexivity. Qed.

(* lengths around the rate: 135 bytes (one padding byte 0x81), 136 and 137 bytes (two blocks);
   digests of 135 / 136 / 137 bytes 0x61 computed with alloy-primitives keccak256 in the
   correspondence run as well *)
Example keccak256_length_32 : length (keccak256 (repeat 0x61 135)) = 32%nat.
Proof. vm_compute. reflexivity. Qed.
