(* Byte strings as [list Z] (every element in [0,256)) with the readers used by the
   precompiles: big/little endian conversion, slices with Z offsets, right/left padding.
   Shifts and masks are used instead of [/] and [mod] because they are linear under vm_compute. *)
From RevmV Require Export Base.Word.
Local Open Scope Z_scope.

Definition bytes := list Z.

Definition zlen {A} (l : list A) : Z := Z.of_nat (length l).

Fixpoint zeros (n : nat) : bytes := match n with O => [] | S k => 0 :: zeros k end.

(* big endian *)
Fixpoint be_acc (acc : Z) (l : bytes) : Z :=
  match l with [] => acc | b :: r => be_acc (Z.lor (Z.shiftl acc 8) b) r end.
Definition be_to_Z (l : bytes) : Z := be_acc 0 l.

Fixpoint Z_to_be_acc (n : nat) (x : Z) (acc : bytes) : bytes :=
  match n with O => acc | S k => Z_to_be_acc k (Z.shiftr x 8) (Z.land x 255 :: acc) end.
(* the [n] low-order bytes of [x], most significant first *)
Definition Z_to_be (n : nat) (x : Z) : bytes := Z_to_be_acc n x [].

(* little endian *)
Fixpoint le_to_Z (l : bytes) : Z :=
  match l with [] => 0 | b :: r => Z.lor b (Z.shiftl (le_to_Z r) 8) end.
Fixpoint Z_to_le (n : nat) (x : Z) : bytes :=
  match n with O => [] | S k => Z.land x 255 :: Z_to_le k (Z.shiftr x 8) end.

(* [data.get(off..).unwrap_or_default()] with a machine-size offset *)
Definition drop (off : Z) (l : bytes) : bytes :=
  if off <? 0 then l else if zlen l <=? off then [] else skipn (Z.to_nat off) l.

(* [right_pad_vec(data, n)]: the first n bytes, missing ones are zero *)
Fixpoint take_pad (n : nat) (l : bytes) : bytes :=
  match n with
  | O => []
  | S k => match l with [] => 0 :: take_pad k [] | b :: r => b :: take_pad k r end
  end.
(* [right_pad_with_offset::<n>(data, off)] *)
Definition right_pad_off (n : nat) (data : bytes) (off : Z) : bytes := take_pad n (drop off data).

(* [left_pad_vec(data, n)]: first n bytes if long enough, else zeros in front *)
Definition left_pad (n : nat) (l : bytes) : bytes :=
  if (n <=? length l)%nat then firstn n l else zeros (n - length l) ++ l.

(* slice [a, a+n) of a list known to be long enough (missing bytes read as zero) *)
Definition slice (a n : nat) (l : bytes) : bytes := take_pad n (skipn a l).

Definition all_zero (l : bytes) : bool := forallb (fun b => b =? 0) l.
Definition bytes_eqb (a b : bytes) : bool :=
  (fix go (a b : bytes) := match a, b with
     | [], [] => true | x :: a', y :: b' => (x =? y) && go a' b' | _, _ => false end) a b.
Definition is_bytes (l : bytes) : bool := forallb (fun b => (0 <=? b) && (b <? 256)) l.

(* split into chunks of n *)
Fixpoint chunks_fuel (fuel : nat) (n : nat) (l : bytes) : list bytes :=
  match fuel with
  | O => []
  | S f => match l with [] => [] | _ => firstn n l :: chunks_fuel f n (skipn n l) end
  end.
Definition chunks (n : nat) (l : bytes) : list bytes := chunks_fuel (S (length l)) n l.

(* ---- lemmas: reading past the input yields zeros ---- *)
Lemma take_pad_length n l : length (take_pad n l) = n.
Proof. revert l; induction n as [|n IH]; intros l; [reflexivity|].
  destruct l; cbn [take_pad length]; rewrite IH; reflexivity. Qed.

Lemma take_pad_nil n : take_pad n [] = zeros n.
Proof. induction n as [|n IH]; [reflexivity|]. cbn [take_pad zeros]. rewrite IH. reflexivity. Qed.

Lemma take_pad_nth n l i : (i < n)%nat ->
  nth i (take_pad n l) 0 = nth i l 0.
Proof. revert l i; induction n as [|n IH]; intros l i Hi; [lia|].
  destruct l as [|b r]; destruct i as [|i]; cbn [take_pad nth]; try reflexivity.
  - rewrite IH by lia. destruct i; reflexivity.
  - apply IH; lia. Qed.

(* a byte at an index beyond the data is zero; inside the data it is the data byte *)
Lemma take_pad_beyond n l i : (length l <= i < n)%nat -> nth i (take_pad n l) 0 = 0.
Proof. intros [H1 H2]. rewrite take_pad_nth by lia. apply nth_overflow. exact H1. Qed.

Lemma take_pad_exact n l : (n <= length l)%nat -> take_pad n l = firstn n l.
Proof. revert l; induction n as [|n IH]; intros l Hl; [reflexivity|].
  destruct l as [|b r]; cbn [length] in Hl; [lia|]. cbn [take_pad firstn]. rewrite IH by lia. reflexivity. Qed.

Lemma take_pad_short n l : (length l <= n)%nat -> take_pad n l = l ++ zeros (n - length l).
Proof. revert l; induction n as [|n IH]; intros l Hl.
  - destruct l; [reflexivity|cbn [length] in Hl; lia].
  - destruct l as [|b r].
    + cbn [take_pad app length]. rewrite take_pad_nil. reflexivity.
    + cbn [length] in Hl. cbn [take_pad app length]. rewrite IH by lia.
      replace (S n - S (length r))%nat with (n - length r)%nat by lia. reflexivity. Qed.

Lemma drop_beyond off l : zlen l <= off -> drop off l = [].
Proof. intros H. unfold drop. destruct (off <? 0) eqn:A.
  - apply Z.ltb_lt in A. unfold zlen in H. destruct l; [reflexivity|]. cbn [length] in H. lia.
  - destruct (zlen l <=? off) eqn:B; [reflexivity|]. apply Z.leb_gt in B. lia. Qed.

Lemma right_pad_off_beyond n data off : zlen data <= off -> right_pad_off n data off = zeros n.
Proof. intros H. unfold right_pad_off. rewrite drop_beyond by exact H. apply take_pad_nil. Qed.

Lemma right_pad_off_length n data off : length (right_pad_off n data off) = n.
Proof. apply take_pad_length. Qed.

Lemma zeros_length n : length (zeros n) = n.
Proof. induction n as [|n IH]; [reflexivity|]. cbn [zeros length]. rewrite IH. reflexivity. Qed.

Lemma left_pad_length n l : length (left_pad n l) = n.
Proof. unfold left_pad. destruct (n <=? length l)%nat eqn:A.
  - apply Nat.leb_le in A. apply firstn_length_le. exact A.
  - apply Nat.leb_gt in A. rewrite app_length, zeros_length. lia. Qed.

Lemma be_acc_zeros n acc : be_acc acc (zeros n) = Z.shiftl acc (8 * Z.of_nat n).
Proof. revert acc; induction n as [|n IH]; intros acc.
  - cbn [zeros be_acc]. rewrite Z.shiftl_0_r. reflexivity.
  - cbn [zeros be_acc]. rewrite Z.lor_0_r, IH, Z.shiftl_shiftl by lia. f_equal. lia. Qed.

Lemma be_to_Z_zeros n : be_to_Z (zeros n) = 0.
Proof. unfold be_to_Z. rewrite be_acc_zeros. apply Z.shiftl_0_l. Qed.

(* left padding does not change the big-endian value *)
Lemma be_acc_app a b acc : be_acc acc (a ++ b) = be_acc (be_acc acc a) b.
Proof. revert acc; induction a as [|x a IH]; intros acc; [reflexivity|]. cbn [app be_acc]. apply IH. Qed.

Lemma be_to_Z_left_zeros n l : be_to_Z (zeros n ++ l) = be_to_Z l.
Proof. unfold be_to_Z. rewrite be_acc_app, be_acc_zeros, Z.shiftl_0_l. reflexivity. Qed.
