(* Machine integers as mathematical integers with explicit wrap / saturation / checks.
   Everything is a plain total function on Z; ranges are stated in lemmas. *)
From Coq Require Export ZArith List Lia Bool.
Export ListNotations.
Local Open Scope Z_scope.

Definition pow64 : Z := 18446744073709551616.
Definition pow63 : Z := 9223372036854775808.
Definition pow128 : Z := 340282366920938463463374607431768211456.
Definition pow256 : Z :=
  115792089237316195423570985008687907853269984665640564039457584007913129639936.
Definition pow255 : Z :=
  57896044618658097711785492504343953926634992332820282019728792003956564819968.

Lemma pow64_eq : pow64 = 2 ^ 64. Proof. reflexivity. Qed.
Lemma pow63_eq : pow63 = 2 ^ 63. Proof. reflexivity. Qed.
Lemma pow128_eq : pow128 = 2 ^ 128. Proof. reflexivity. Qed.
Lemma pow256_eq : pow256 = 2 ^ 256. Proof. reflexivity. Qed.
Lemma pow255_eq : pow255 = 2 ^ 255. Proof. reflexivity. Qed.

Definition in_u64 (x : Z) : Prop := 0 <= x < pow64.
Definition in_i64 (x : Z) : Prop := - pow63 <= x < pow63.
Definition in_u128 (x : Z) : Prop := 0 <= x < pow128.
Definition in_u256 (x : Z) : Prop := 0 <= x < pow256.

Definition is_u64 (x : Z) : bool := (0 <=? x) && (x <? pow64).
Definition is_i64 (x : Z) : bool := (- pow63 <=? x) && (x <? pow63).
Definition is_u128 (x : Z) : bool := (0 <=? x) && (x <? pow128).
Definition is_u256 (x : Z) : bool := (0 <=? x) && (x <? pow256).

Lemma is_u64_spec x : is_u64 x = true <-> in_u64 x.
Proof. unfold is_u64, in_u64. rewrite andb_true_iff, Z.leb_le, Z.ltb_lt. tauto. Qed.
Lemma is_i64_spec x : is_i64 x = true <-> in_i64 x.
Proof. unfold is_i64, in_i64. rewrite andb_true_iff, Z.leb_le, Z.ltb_lt. tauto. Qed.
Lemma is_u128_spec x : is_u128 x = true <-> in_u128 x.
Proof. unfold is_u128, in_u128. rewrite andb_true_iff, Z.leb_le, Z.ltb_lt. tauto. Qed.
Lemma is_u256_spec x : is_u256 x = true <-> in_u256 x.
Proof. unfold is_u256, in_u256. rewrite andb_true_iff, Z.leb_le, Z.ltb_lt. tauto. Qed.

(* wrap-around as performed by release builds *)
Definition wrap64 (x : Z) : Z := x mod pow64.
Definition wrap128 (x : Z) : Z := x mod pow128.
Definition wrap256 (x : Z) : Z := x mod pow256.
(* two's complement reinterpretations *)
Definition to_i64 (x : Z) : Z := let y := x mod pow64 in if y <? pow63 then y else y - pow64.
Definition i64_as_u64 (x : Z) : Z := x mod pow64.

(* checked (Option), saturating *)
Definition checked64 (x : Z) : option Z := if is_u64 x then Some x else None.
Definition sat64 (x : Z) : Z := if x <? 0 then 0 else if x <? pow64 then x else pow64 - 1.
Definition checked128 (x : Z) : option Z := if is_u128 x then Some x else None.
Definition sat256 (x : Z) : Z := if x <? 0 then 0 else if x <? pow256 then x else pow256 - 1.

Lemma wrap64_range x : in_u64 (wrap64 x).
Proof. unfold in_u64, wrap64. apply Z.mod_pos_bound. reflexivity. Qed.
Lemma wrap64_id x : in_u64 x -> wrap64 x = x.
Proof. unfold in_u64, wrap64. intros. apply Z.mod_small; lia. Qed.
Lemma wrap256_range x : in_u256 (wrap256 x).
Proof. unfold in_u256, wrap256. apply Z.mod_pos_bound. reflexivity. Qed.
Lemma wrap256_id x : in_u256 x -> wrap256 x = x.
Proof. unfold in_u256, wrap256. intros. apply Z.mod_small; lia. Qed.
Lemma sat64_range x : in_u64 (sat64 x).
Proof. unfold in_u64, sat64, pow64. destruct (x <? 0) eqn:A; [lia|].
  destruct (x <? 18446744073709551616) eqn:B; lia. Qed.
Lemma to_i64_range x : in_i64 (to_i64 x).
Proof. unfold in_i64, to_i64. pose proof (Z.mod_pos_bound x pow64 eq_refl).
  unfold pow63, pow64 in *. destruct (_ <? _) eqn:A; lia. Qed.
Lemma to_i64_id x : in_i64 x -> to_i64 x = x.
Proof. unfold in_i64, to_i64, pow63, pow64. intros H.
  destruct (Z_lt_le_dec x 0).
  - replace (x mod 18446744073709551616) with (x + 18446744073709551616).
    + destruct (_ <? _) eqn:A; lia.
    + apply Z.mod_unique with (q := -1); lia.
  - rewrite Z.mod_small by lia. destruct (_ <? _) eqn:A; lia. Qed.

Ltac unfold_pows := unfold in_u64, in_i64, in_u128, in_u256, pow64, pow63, pow128, pow256, pow255 in *.
