(* Keccak-256 (the pre-standard padding 0x01 used by Ethereum) as an executable Gallina
   function over 64-bit lanes in Z.  Executable specification, validated on standard vectors. *)
From RevmV Require Export Base.PBytes.
Local Open Scope Z_scope.

Definition k_m64 : Z := 18446744073709551615.
Definition k_rotl (x n : Z) : Z :=
  if n =? 0 then x else Z.lor (Z.land (Z.shiftl x n) k_m64) (Z.shiftr x (64 - n)).
Definition k_not (x : Z) := Z.lxor x k_m64.

Definition k_RC : list Z :=
 [0x1; 0x8082; 0x800000000000808a; 0x8000000080008000; 0x808b; 0x80000001; 0x8000000080008081;
  0x8000000000008009; 0x8a; 0x88; 0x80008009; 0x8000000a; 0x8000808b; 0x800000000000008b;
  0x8000000000008089; 0x8000000000008003; 0x8000000000008002; 0x8000000000000080; 0x800a;
  0x800000008000000a; 0x8000000080008081; 0x8000000000008080; 0x80000001; 0x8000000080008008].
(* rotation offsets, lane (x,y) at index x + 5y *)
Definition k_rot : list Z :=
 [0; 1; 62; 28; 27; 36; 44; 6; 55; 20; 3; 10; 43; 25; 39; 41; 45; 15; 21; 8; 18; 2; 61; 56; 14].

Definition lane (a : list Z) (x y : nat) : Z := nth (x + 5 * y) a 0.
Definition idx25 : list (nat * nat) :=
  flat_map (fun y => map (fun x => (x, y)) (seq 0 5)) (seq 0 5).

Definition k_round (a : list Z) (rc : Z) : list Z :=
  (* theta *)
  let c := map (fun x => Z.lxor (Z.lxor (Z.lxor (Z.lxor (lane a x 0) (lane a x 1)) (lane a x 2)) (lane a x 3)) (lane a x 4)) (seq 0 5) in
  let d := map (fun x => Z.lxor (nth ((x + 4) mod 5) c 0) (k_rotl (nth ((x + 1) mod 5) c 0) 1)) (seq 0 5) in
  let a1 := map (fun p => Z.lxor (lane a (fst p) (snd p)) (nth (fst p) d 0)) idx25 in
  (* rho and pi: B[y, 2x+3y] = rot(A[x,y]) ;  equivalently B[x,y] = rot(A[(x+3y) mod 5, x]) *)
  let b := map (fun p => let x := fst p in let y := snd p in
                         let sx := ((x + 3 * y) mod 5)%nat in
                         k_rotl (lane a1 sx x) (nth (sx + 5 * x) k_rot 0)) idx25 in
  (* chi *)
  let a2 := map (fun p => let x := fst p in let y := snd p in
                          Z.lxor (lane b x y) (Z.land (k_not (lane b ((x + 1) mod 5) y)) (lane b ((x + 2) mod 5) y))) idx25 in
  (* iota *)
  match a2 with h :: t => Z.lxor h rc :: t | [] => [] end.

Definition keccak_f (a : list Z) : list Z := fold_left k_round k_RC a.

Definition k_absorb (a : list Z) (block : bytes) : list Z :=
  let ls := map le_to_Z (chunks 8 block) in
  keccak_f (map (fun p => Z.lxor (fst p) (snd p)) (combine a (ls ++ map (fun _ => 0) (seq 0 8)))).

(* pad10*1 with domain byte 0x01 to a multiple of the rate 136 *)
Definition k_pad (msg : bytes) : bytes :=
  let r := 136 in
  let l := zlen msg in
  let k := Z.to_nat (r - 1 - (l mod r)) in   (* number of padding bytes minus one *)
  match k with
  | O => msg ++ [129]
  | S k' => msg ++ [1] ++ zeros k' ++ [128]
  end.

Definition keccak256 (msg : bytes) : bytes :=
  let st := fold_left k_absorb (chunks 136 (k_pad msg)) (map (fun _ => 0) (seq 0 25)) in
  firstn 32 (flat_map (Z_to_le 8) st).

Example keccak256_empty : keccak256 [] = Z_to_be 32 0xc5d2460186f7233c927e7db2dcc703c0e500b653ca82273b7bfad8045d85a470.
Proof. vm_compute. reflexivity. Qed.
Example keccak256_abc : keccak256 [97; 98; 99] = Z_to_be 32 0x4e03657aea45a94fc7d47ba826c8d667c0d1e6e33a64a036ec44f58fa12d6c45.
Proof. vm_compute. reflexivity. Qed.
