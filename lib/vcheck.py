"""Framework shared by every property check (see DESIGN.md section 3).

A check = build harness against /repo's working tree -> reflect finite tables into coq/Gen
-> compile the property's Coq files (full .vo) -> Print Assumptions / forbidden-word audit
-> correspondence: the harness runs the implementation on generated cases and writes them as
Coq terms, coqc evaluates the model and the specification oracle on them with vm_compute
-> decide, write evidence, exit code.
"""
import fcntl, glob, hashlib, json, os, re, subprocess, sys, time
from concurrent.futures import ThreadPoolExecutor

VERIF = os.environ.get('VERIF_ROOT', '/verif')
COQ = VERIF + '/coq'
HARNESS = VERIF + '/harness'
WORK = VERIF + '/work'
REPLAYS = VERIF + '/replays'
EVID = VERIF + '/evidence'
GUARD = 'risechain_revm_verif'

ENV = dict(os.environ, CARGO_NET_OFFLINE='true', CARGO_TERM_COLOR='never')

FORBIDDEN = r'\b(Admitted|admit|Axiom|Axioms|Parameter|Parameters|Conjecture|Conjectures|Admit Obligations|bypass_check)\b|Unset Guard Checking|Unset Positivity Checking|Unset Universe Checking|type-in-type|impredicative-set|native_compute'
# axioms of Coq's standard library that may appear under Print Assumptions (named in the trusted base)
STDLIB_AXIOMS = {
    'functional_extensionality_dep', 'FunctionalExtensionality.functional_extensionality_dep',
    'proof_irrelevance', 'ProofIrrelevance.proof_irrelevance', 'Classical_Prop.classic', 'classic',
    'JMeq_eq', 'JMeq.JMeq_eq', 'Eqdep.Eq_rect_eq.eq_rect_eq', 'eq_rect_eq',
    'propositional_extensionality', 'PropExtensionality.propositional_extensionality',
}


def log(*a):
    print(*a, flush=True)


class Lock:
    def __init__(self, name):
        os.makedirs(WORK, exist_ok=True)
        self.path = os.path.join(WORK, name + '.lock')
    def __enter__(self):
        self.f = open(self.path, 'w')
        fcntl.flock(self.f, fcntl.LOCK_EX)
    def __exit__(self, *a):
        fcntl.flock(self.f, fcntl.LOCK_UN)
        self.f.close()


def sh(cmd, cwd=None, timeout=None, env=None):
    try:
        p = subprocess.run(cmd, cwd=cwd, env=env or ENV, stdout=subprocess.PIPE, stderr=subprocess.STDOUT,
                           timeout=timeout, shell=isinstance(cmd, str))
        return p.returncode, p.stdout.decode('utf-8', 'replace')
    except subprocess.TimeoutExpired as e:
        return 124, (e.stdout or b'').decode('utf-8', 'replace') + '\n[timeout]'


# ----------------------------------------------------------------------------- harness build
def harness_bin(profile='debug', features=(), hooks=False, variant=''):
    tdir = HARNESS + '/target' + ('-hook' if hooks else '') + (('-' + variant) if variant else '')
    return '%s/%s/vh' % (tdir, 'release' if profile == 'release' else 'debug')


def build_harness(profile='debug', features=(), hooks=False, variant='', no_default=False):
    """cargo build of /verif/harness against /repo (path dependency): rebuilds from the current tree."""
    if not os.path.exists(HARNESS + '/Cargo.lock') or \
            open(HARNESS + '/Cargo.lock').read() != _lock_for_harness():
        open(HARNESS + '/Cargo.lock', 'w').write(_lock_for_harness())
    tdir = HARNESS + '/target' + ('-hook' if hooks else '') + (('-' + variant) if variant else '')
    cmd = ['cargo', 'build', '--offline', '--target-dir', tdir]
    if profile == 'release':
        cmd.append('--release')
    if no_default:
        cmd.append('--no-default-features')
    if features:
        cmd += ['--features', ','.join(features)]
    env = dict(ENV)
    if hooks:
        env['RUSTFLAGS'] = (env.get('RUSTFLAGS', '') + ' --cfg ' + GUARD).strip()
    out = ''
    with Lock('cargo' + ('-hook' if hooks else '') + variant):
        for attempt in range(3):
            rc, out = sh(cmd, cwd=HARNESS, timeout=3000, env=env)
            if rc == 0:
                return True, out
            # rustc occasionally aborts (SIGABRT) under memory pressure in this sandbox: retry
            if 'SIGABRT' in out or 'signal: 6' in out or 'signal: 9' in out or 'SIGSEGV' in out:
                continue
            break
    return False, out


def build_revme():
    """revme (the repository's own state-test runner) built from /repo's current tree, for the official vectors (C01)."""
    env = dict(ENV, CARGO_TARGET_DIR=HARNESS + '/target-revme')
    out = ''
    with Lock('cargo-revme'):
        for attempt in range(3):
            rc, out = sh(['cargo', 'build', '--offline', '-p', 'revme', '--profile', 'ethtests'], cwd='/repo', timeout=6000, env=env)
            if rc == 0:
                return True, out
            if 'SIGABRT' in out or 'signal: 6' in out or 'signal: 9' in out or 'SIGSEGV' in out:
                continue
            break
    return False, out


def _lock_for_harness():
    # the harness has no dependency beyond /repo's crates, so /repo's lock file pins everything
    base = open('/repo/Cargo.lock').read()
    if '\nname = "vh"\n' in base:
        return base
    deps = ['revm', 'revm-interpreter', 'revm-precompile', 'revm-primitives']
    entry = '\n[[package]]\nname = "vh"\nversion = "0.1.0"\ndependencies = [\n' + ''.join(' "%s",\n' % d for d in deps) + ']\n'
    return base.rstrip('\n') + '\n' + entry


# ----------------------------------------------------------------------------- coq
def coq_files():
    fs = []
    for d in ('Base', 'Gen', 'Model', 'Spec', 'Proofs', 'Corr', 'Props'):
        fs += sorted(glob.glob('%s/%s/*.v' % (COQ, d)))
    return [os.path.relpath(f, COQ) for f in fs]


def coq_makefile():
    files = coq_files()
    proj = open(COQ + '/_CoqProject.head').read() + '\n'.join(files) + '\n'
    cur = open(COQ + '/_CoqProject').read() if os.path.exists(COQ + '/_CoqProject') else ''
    if cur != proj or not os.path.exists(COQ + '/Makefile'):
        open(COQ + '/_CoqProject', 'w').write(proj)
        rc, out = sh(['coq_makefile', '-f', '_CoqProject', '-o', 'Makefile'], cwd=COQ)
        if rc != 0:
            raise RuntimeError('coq_makefile failed: ' + out)


def coq_make(targets, timeout=3000):
    """Full .vo build of the given targets (never -vos). Returns (ok, output)."""
    with Lock('coq'):
        coq_makefile()
        rc, out = sh(['make', '-j16', '-k'] + list(targets), cwd=COQ, timeout=timeout)
    return rc == 0, out


def theorem_names(vfile):
    src = open(os.path.join(COQ, vfile)).read()
    return re.findall(r'^\s*(?:Theorem|Example)\s+([A-Za-z0-9_\']+)', src, re.M)


def failed_coq_files(out):
    return sorted(set(re.findall(r'File "\./([^"]+)", line \d+', out)))


def print_assumptions(pid, vfile, names, workdir):
    """Returns {theorem: [axioms]} by compiling a file of Print Assumptions commands."""
    mod = vfile[:-2].replace('/', '.')
    body = 'From RevmV Require Import %s.\n' % mod
    for n in names:
        body += 'Goal True. idtac "@@THM %s". exact I. Qed.\nPrint Assumptions %s.\n' % (n, n)
    p = os.path.join(workdir, 'assumptions_%s.v' % pid)
    open(p, 'w').write(body)
    rc, out = sh(['coqc', '-noglob', '-Q', COQ, 'RevmV', p], cwd=workdir, timeout=900)
    res = {}
    if rc != 0:
        return None, out
    cur = None
    for line in out.splitlines():
        m = re.match(r'@@THM (\S+)', line)
        if m:
            cur = m.group(1); res[cur] = []
            continue
        if cur is None:
            continue
        if 'Closed under the global context' in line or line.strip() in ('Axioms:', ''):
            continue
        # an assumption is printed as "name : type", or as "name" alone with the type on the
        # following indented lines when it does not fit
        m = re.match(r'^([A-Za-z_][\w\.\']*)\s*(:.*)?$', line)
        if m and not line.startswith(' '):
            res[cur].append(m.group(1))
    return res, out


def audit_sources():
    """No Admitted/admit/Axiom/... anywhere in the development (comments excluded)."""
    hits = []
    for f in coq_files():
        src = open(os.path.join(COQ, f)).read()
        src = strip_comments(src)
        for i, line in enumerate(src.splitlines(), 1):
            if re.search(FORBIDDEN, line):
                hits.append('%s:%d: %s' % (f, i, line.strip()))
    return hits


def strip_comments(s):
    out = []; depth = 0; i = 0
    while i < len(s):
        if s.startswith('(*', i):
            depth += 1; i += 2
        elif s.startswith('*)', i) and depth > 0:
            depth -= 1; i += 2
        else:
            if depth == 0:
                out.append(s[i])
            elif s[i] == '\n':
                out.append('\n')
            i += 1
    return ''.join(out)


def eval_shard(path):
    d = os.path.dirname(path)
    rc, out = sh(['coqc', '-noglob', '-Q', COQ, 'RevmV', os.path.basename(path)], cwd=d, timeout=1800)
    for ext in ('.vo', '.vok', '.vos', '.glob'):
        try:
            os.remove(path[:-2] + ext)
        except OSError:
            pass
    aux = os.path.join(d, '.' + os.path.basename(path)[:-2] + '.aux')
    try:
        os.remove(aux)
    except OSError:
        pass
    if rc != 0:
        return None, out
    m = re.search(r'=\s*(\[.*?\])\s*:\s*list', out, re.S)
    if not m:
        return None, out
    pairs = re.findall(r'\(\s*(-?\d+)\s*,\s*(-?\d+)\s*\)', m.group(1))
    return [(int(a), int(b)) for a, b in pairs], out


def eval_shards(paths, jobs=16):
    with ThreadPoolExecutor(max_workers=jobs) as ex:
        return list(ex.map(eval_shard, paths))


# ----------------------------------------------------------------------------- known findings
def known_findings():
    p = VERIF + '/known_findings.json'
    if not os.path.exists(p):
        return {'findings': [], 'fixed': []}
    return json.load(open(p))


# ----------------------------------------------------------------------------- the check
class Result:
    def __init__(self, pid, tier, seed):
        self.pid, self.tier, self.seed = pid, tier, seed
        self.violations = []      # dicts: {kind, what, input?, detail}
        self.known = []           # (finding id, what)
        self.obligations = 0
        self.discharged = 0
        self.coverage = {}
        self.axioms = set()
        self.notes = []
        self.t0 = time.time()

    def violate(self, kind, what, case=None, detail=None, found_input=False):
        self.violations.append({'kind': kind, 'what': what, 'input': case, 'detail': detail,
                                'failing_input_found': found_input})


def write_replay(res, v, n):
    os.makedirs(REPLAYS, exist_ok=True)
    body = {'property': res.pid, 'tier': res.tier, 'seed': res.seed, **v}
    h = hashlib.sha1(json.dumps(body, sort_keys=True).encode()).hexdigest()[:10]
    p = '%s/%s-%s.json' % (REPLAYS, res.pid, h)
    json.dump(body, open(p, 'w'), indent=1)
    return p


def run_check(cfg, tier, seed, only=None):
    pid = cfg['id']
    res = Result(pid, tier, seed)
    work = os.path.join(WORK, pid)
    os.makedirs(work, exist_ok=True)
    kf = known_findings()
    listed = {f['class']: f for f in kf.get('findings', []) if f.get('property') == pid}

    # 1. harness builds (from /repo's working tree)
    builds = {}
    for drv in cfg.get('drivers', []):
        profiles = drv.get('profiles', {}).get(tier, drv.get('profiles', {}).get('quick', ['debug']))
        for prof in profiles:
            key = (prof, tuple(drv.get('features', ())), drv.get('hooks', False), drv.get('variant', ''))
            if key in builds:
                continue
            ok, out = build_harness(prof, drv.get('features', ()), drv.get('hooks', False), drv.get('variant', ''),
                                    drv.get('no_default', False))
            builds[key] = ok
            if not ok:
                errs = '\n'.join([l for l in out.splitlines() if l.startswith('error') or '-->' in l][:40])
                res.violate('harness-build', 'the verification harness no longer compiles against /repo (%s profile): '
                            'the correspondence for %s cannot be established' % (prof, pid), detail=errs or out[-3000:])
    for drv in cfg.get('drivers', []):
        if drv.get('needs_revme') and 'revme' not in builds:
            ok_r, out_r = build_revme()
            builds['revme'] = ok_r
            if not ok_r:
                errs = '\n'.join([l for l in out_r.splitlines() if l.startswith('error') or '-->' in l][:40])
                res.violate('harness-build', 'revme (the state-test runner of /repo) no longer builds: the official vectors cannot be run', detail=errs or out_r[-3000:])
    # 2. reflection tables
    if cfg.get('gen') and all(v for k, v in builds.items() if k != 'revme'):
        ok, out = reflect()
        if not ok:
            cr = out.split('@@CRUMB ', 1)[1] if '@@CRUMB ' in out else None
            if cr and cr.startswith(pid + ' '):
                # the process died while the implementation ran this input, and for this property that is the violation
                res.violate('property', 'the implementation aborted the process on this input (while the finite tables were being reflected)',
                            case={'case': cr, 'driver': 'reflect'}, detail=out[-3000:], found_input=True)
            else:
                res.violate('reflect', 'reflection of finite tables from the compiled code failed', case={'case': cr} if cr else None, detail=out[-3000:])

    # 3. proofs
    targets = [f[:-2] + '.vo' for f in cfg['coq']]
    ok, out = coq_make(targets)
    thms = []
    for f in cfg['props_files']:
        thms += [(f, n) for n in theorem_names(f)]
    res.obligations = len(thms)
    bad_files = failed_coq_files(out) if not ok else []
    if not ok:
        errtxt = out[-4000:]
        res.notes.append('coq build failed in: ' + ', '.join(bad_files))
    compiled = {f for f in cfg['props_files'] if os.path.exists(os.path.join(COQ, f[:-2] + '.vo')) and
                os.path.getmtime(os.path.join(COQ, f[:-2] + '.vo')) >= os.path.getmtime(os.path.join(COQ, f))}
    if not ok:
        for f in cfg['props_files']:
            if f not in compiled or any(b for b in bad_files):
                pass
        res.violate('proof', 'Coq obligations of %s no longer check (%s)' % (pid, ', '.join(bad_files) or 'make failed'),
                    detail=errtxt)
    # 4. assumptions audit
    allowed = set(STDLIB_AXIOMS) | set(cfg.get('allow_axioms', ()))
    for f in cfg['props_files']:
        names = [n for (ff, n) in thms if ff == f]
        if f not in compiled or not ok:
            continue
        asm, aout = print_assumptions(pid + '_' + os.path.basename(f)[:-2], f, names, work)
        if asm is None:
            res.violate('proof', 'Print Assumptions failed for ' + f, detail=aout[-2000:])
            continue
        for n in names:
            ax = asm.get(n)
            if ax is None:
                res.violate('proof', 'theorem %s missing from %s' % (n, f))
                continue
            extra = [a for a in ax if a.split('.')[-1] not in {x.split('.')[-1] for x in allowed}]
            res.axioms.update(ax)
            if extra:
                res.violate('proof', 'theorem %s depends on non-allow-listed axioms %s' % (n, extra))
            else:
                res.discharged += 1
    # thorough: independent re-check of the compiled files with coqchk
    res.coqchk = None
    if tier == 'thorough' and ok:
        mods = ['RevmV.' + f[:-2].replace('/', '.') for f in cfg['props_files'] if f in compiled]
        if mods:
            rc, cout = sh(['coqchk', '-o', '-silent', '-Q', COQ, 'RevmV'] + mods, cwd=COQ, timeout=6000)
            axioms = re.findall(r'^\s*([A-Za-z_][\w\.\']*)\s*$', cout.split('Axioms:')[1], re.M) if 'Axioms:' in cout else []
            res.coqchk = {'rc': rc, 'axioms': [a for a in axioms if a not in ('', 'Constants', 'Inductives')][:50], 'tail': cout[-600:]}
            if rc != 0 and rc != 124:
                res.violate('proof', 'coqchk rejected the compiled files of %s' % pid, detail=cout[-3000:])
    hits = audit_sources()
    if hits:
        res.violate('audit', 'forbidden declaration in the Coq development', detail='\n'.join(hits[:20]))

    # 5. correspondence
    metas = []
    total_fail = []
    for drv in cfg.get('drivers', []):
        profiles = drv.get('profiles', {}).get(tier, drv.get('profiles', {}).get('quick', ['debug']))
        for prof in profiles:
            key = (prof, tuple(drv.get('features', ())), drv.get('hooks', False), drv.get('variant', ''))
            if not builds.get(key):
                continue
            if drv.get('needs_revme') and not builds.get('revme'):
                continue
            mod = drv['module']
            corr_vo = os.path.join(COQ, 'Corr', mod + '.vo')
            if not os.path.exists(corr_vo):
                res.violate('correspondence', 'Corr/%s.v did not compile; the model cannot be evaluated' % mod)
                continue
            wdir = os.path.join(work, drv['name'] + '-' + prof)
            os.makedirs(wdir, exist_ok=True)
            cmd = [harness_bin(prof, drv.get('features', ()), drv.get('hooks', False), drv.get('variant', '')),
                   drv['name'], '--tier', tier, '--seed', str(seed), '--out', wdir]
            if only is not None:
                cmd += ['--only', str(only)]
            crumb = os.path.join(wdir, 'crumb.txt')
            if os.path.exists(crumb):
                os.remove(crumb)
            rc, out = sh(cmd, cwd=wdir, timeout=drv.get('timeout', 3000), env=dict(ENV, VH_CRUMB=crumb))
            if rc != 0:
                cr = open(crumb, errors='replace').read() if os.path.exists(crumb) else None
                if cr and cr.startswith(pid + ' ') and rc != 124:
                    res.violate('property', 'the implementation aborted the process on this input (driver %s, %s profile, exit code %d)' % (drv['name'], prof, rc),
                                case={'case': cr, 'driver': drv['name'], 'profile': prof}, detail=out[-3000:], found_input=True)
                else:
                    res.violate('harness-run', 'harness driver %s (%s) failed with exit code %d' % (drv['name'], prof, rc),
                                case={'case': cr} if cr else None, detail=out[-3000:])
                continue
            meta = json.load(open(os.path.join(wdir, 'meta_%s.json' % mod)))
            meta['profile'] = prof; meta['driver'] = drv['name']
            metas.append(meta)
            shards = sorted(glob.glob(os.path.join(wdir, 'cases_%s_*.v' % mod)),
                            key=lambda p: int(re.search(r'_(\d+)\.v$', p).group(1)))
            index = {}
            for line in open(os.path.join(wdir, 'index_%s.txt' % mod), errors='replace'):
                parts = line.rstrip('\n').split('\t', 3)
                if len(parts) == 4:
                    index[(int(parts[1]), int(parts[2]))] = (int(parts[0]), parts[3])
            results = eval_shards(shards)
            for spath, (fails, sout) in zip(shards, results):
                k = int(re.search(r'_(\d+)\.v$', spath).group(1))
                if fails is None:
                    res.violate('correspondence', 'coqc could not evaluate %s' % os.path.basename(spath), detail=sout[-2000:])
                    continue
                for (local, verdict) in fails:
                    gidx, human = index.get((k, local), (-1, '?'))
                    total_fail.append({'driver': drv['name'], 'profile': prof, 'index': gidx, 'verdict': verdict,
                                       'case': human, 'shard': os.path.basename(spath), 'local': local})
    # 6. decide
    descr = cfg.get('verdicts', {})
    reported_classes = set()
    n_viol_cases = 0
    total_fail.sort(key=lambda f: (0 if f['verdict'] == 2 else 1 if f['verdict'] >= 10 else 2))
    for f in total_fail:
        v = f['verdict']
        if v >= 10:
            cls = cfg.get('known_classes', {}).get(v)
            if cls and cls in listed:
                if cls not in reported_classes:
                    reported_classes.add(cls)
                    res.known.append((cls, listed[cls]['what'], f))
                continue
            n_viol_cases += 1
            if n_viol_cases <= 5:
                res.violate('property', 'implementation contradicts the property on this input (class %s, not a listed known finding)' % (cls or v),
                            case=f, found_input=True)
        elif v == 2:
            n_viol_cases += 1
            if n_viol_cases <= 5:
                res.violate('property', descr.get(2, 'the implementation\'s observed behaviour contradicts the property on this input'),
                            case=f, found_input=True)
        else:
            n_viol_cases += 1
            if n_viol_cases <= 5:
                res.violate('correspondence', descr.get(v, 'model and implementation disagree on this input; the specification oracle '
                            'does not reject the implementation\'s answer'), case=f, found_input=False)
    res.coverage_metas = metas
    res.n_fail_cases = n_viol_cases
    return res


def reflect():
    os.makedirs(COQ + '/Gen', exist_ok=True)
    tmp = os.path.join(WORK, 'gen-tmp')
    os.makedirs(tmp, exist_ok=True)
    crumb = os.path.join(tmp, 'crumb.txt')
    if os.path.exists(crumb):
        os.remove(crumb)
    rc, out = sh([harness_bin('debug'), 'reflect', '--out', tmp], timeout=1200, env=dict(ENV, VH_CRUMB=crumb))
    if rc != 0:
        if os.path.exists(crumb):
            out += '\n@@CRUMB ' + open(crumb, errors='replace').read()
        return False, out
    with Lock('coq'):
        for f in glob.glob(tmp + '/*.v'):
            dst = os.path.join(COQ, 'Gen', os.path.basename(f))
            new = open(f).read()
            if not os.path.exists(dst) or open(dst).read() != new:
                open(dst, 'w').write(new)
    return True, out


def finish(cfg, res):
    """Print KNOWN-FINDING / VIOLATION lines, write evidence, return exit code."""
    pid = res.pid
    for (cls, what, f) in res.known:
        log('KNOWN-FINDING: property=%s %s [class %s; e.g. %s]' % (pid, what, cls, (f.get('case') or '')[:200]))
    rc = 0
    for i, v in enumerate(res.violations):
        p = write_replay(res, v, i)
        suffix = '' if v.get('failing_input_found') else ' no-failing-input-found'
        log('VIOLATION property=%s replay=%s%s' % (pid, p, suffix))
        log('  ' + v['what'])
        rc = 1
    metas = getattr(res, 'coverage_metas', [])
    evals = sum(m['evaluations'] for m in metas)
    dn = sum(m['distinct_nontrivial'] for m in metas)
    samples = []
    for m in metas:
        samples += ['[%s/%s] %s' % (m['driver'], m['profile'], s) for s in m['samples'][:3]]
    thm_samples = []
    for f in cfg['props_files']:
        thm_samples += theorem_names(f)
    cov = {
        'obligations': max(res.obligations, 1),
        'discharged': res.discharged,
        'checker_cmd': 'make -C ' + COQ + ' %s (coqc 8.16.1, full .vo) ; coqc Print Assumptions on every theorem of %s ; '
                       'thorough adds coqchk -o' % (' '.join(f[:-2] + '.vo' for f in cfg['props_files']), ', '.join(cfg['props_files'])),
        'trusted_base': ['Coq 8.16.1 kernel incl. vm_compute (no native_compute)',
                         'axioms reported by Print Assumptions: ' + (', '.join(sorted(res.axioms)) or 'none (closed under the global context)'),
                         'Rust harness /verif/harness (drives the implementation, prints cases as Coq terms)',
                         'correspondence evaluated by coqc (Eval vm_compute) on the generated case files; no extraction'] + cfg.get('trusted_base', []),
        'theorems': thm_samples,
        'evaluations': evals,
        'distinct_nontrivial': dn,
        'rule': ' || '.join('%s/%s: %s' % (m['driver'], m['profile'], m['rule']) for m in metas),
        'samples': samples or thm_samples[:3],
        'histograms': {'%s/%s' % (m['driver'], m['profile']): m['histogram'] for m in metas},
        'notes': {('%s/%s' % (m['driver'], m['profile'])): m.get('notes', {}) for m in metas},
        'exhaustive': bool(cfg.get('exhaustive', False)),
        'correspondence_failures': getattr(res, 'n_fail_cases', 0),
        'known_findings_hit': [k[0] for k in res.known],
        'modelled_not_verified': cfg.get('modelled', []),
        'partial': cfg.get('partial', ''),
        'coqchk': getattr(res, 'coqchk', None),
    }
    ev = {'property_id': pid, 'tier': res.tier, 'seed': res.seed, 'level': 'proof', 'coverage': cov,
          'assumptions': cfg.get('assumptions', []), 'wall_s': round(time.time() - res.t0, 1),
          'violations': len(res.violations)}
    os.makedirs(EVID, exist_ok=True)
    json.dump(ev, open('%s/%s.json' % (EVID, pid), 'w'), indent=1)
    if rc == 0:
        log('OK property=%s tier=%s theorems=%d/%d cases=%d known=%d wall=%.0fs' % (
            pid, res.tier, res.discharged, res.obligations, evals, len(res.known), time.time() - res.t0))
    return rc
