"""Per-property configuration. One entry per claimed property; bin/mkmanifest derives
MANIFEST.json from it."""

DBG = {'quick': ['debug'], 'thorough': ['debug', 'release']}
DBG_ONLY = {'quick': ['debug'], 'thorough': ['debug']}

PROPS = {}

def prop(**kw):
    PROPS[kw['id']] = kw

prop(id='C13',
     title='gas meter',
     coq=['Props/C13.v', 'Corr/C13.v', 'Proofs/EvmGasProofs.v'],
     props_files=['Props/C13.v'],
     drivers=[{'name': 'c13', 'module': 'C13', 'profiles': DBG}],
     technique='Coq proof: invariant by induction over gas-operation histories (Model/Gas.v) + vm_compute correspondence with revm_interpreter::Gas; '
               'composition (Proofs/EvmGasProofs.v): the same invariant proved along the reference interpreter of C01 (every instruction outcome of Model/Step.v, '
               'every frame of Model/Evm.v through nested calls / creates, precompile results, code deposit, and the parent taking back a child\'s gas and refund), '
               'so the frame-accounting contract of the history theorem is met by the interpreter rather than assumed',
     level_text='Machine-checked theorems (Coq 8.16.1) over all u64/i64 arguments and all operation histories within the frame-accounting '
                'contract: remaining in [0,limit], limit constant, failed charge = no change, successful charge exact, spent = limit-remaining, '
                'final refund = min(refund, spent/q). The model (one Gallina function per Gas method, overflow points explicit) is tied to the '
                'code by executing the real Gas on generated histories and evaluating model + specification oracle inside Coq on the same histories.',
     level_note='Trusted: Coq kernel + vm_compute; Rust harness; the model-code tie is differential (sampled), the theorems are universal over the model. '
                'No axioms (closed under the global context).',
     modelled=['u64/i64 machine arithmetic of rustc (wrap in release, panic in debug) is written into the model by hand'],
     design_ref='5 (C13)')

prop(id='C04',
     title='jumps only onto real JUMPDESTs',
     coq=['Proofs/EvmMiscProofs.v', 'Props/C04.v', 'Corr/C04.v'],
     props_files=['Props/C04.v'],
     drivers=[{'name': 'c04', 'module': 'C04', 'profiles': DBG}],
     technique='Coq proof: the jump table built by analyze on the 33-byte-padded code (Model/Jump.v, skip-counter recursion) marks exactly '
               'the JUMPDEST bytes that are instruction starts (independent inductive InstrStart, Spec/JumpSpec.v); vm_compute correspondence '
               'of the whole table and of real JUMP/JUMPI executions with revm_interpreter; '
               'composition (Proofs/EvmMiscProofs.v): the same statement on the reference interpreter of C01 (Model/Step.v executes JUMP/JUMPI through Model/Jump.v): '
               'per-instruction theorem for opcodes 0x56/0x57 of step, and "the program counter is an instruction start" as an invariant along exec - by induction over an '
               'independent inductive description (reach) of the states a run executes from, nested call/create frames included',
     level_text='Machine-checked theorems (Coq 8.16.1) for every byte string (length + 33 <= 2^64) and every 256-bit target: jump_inner accepts t '
                'iff t < len, code[t] = 0x5b and t is an instruction start (equivalently: not inside the immediate data of a preceding PUSH); '
                'JUMP continues at t or ends in InvalidJump, JUMPI with condition 0 falls through without validating; targets in the padding / beyond are '
                'invalid although the bit vector has the padded length; truncated trailing PUSH data cannot create a destination; re-analysis is the '
                'identity, lazy = eager. The model is tied to the code by comparing the whole jump table (every pc up to len+40 and large pcs) and '
                'executed JUMP/JUMPI outcomes on generated code; the verdict-2 oracle is an independent instruction-start computation proved equal to the spec. '
                'On the reference interpreter (tied to the Rust code by the C01 correspondence), for every world, hardfork, state and frame whose code is a byte string: '
                'JUMP continues exactly onto a ValidDest of the frame\'s own code with the target popped, ends with InvalidJump exactly for a target that is not one, and otherwise only with '
                'StackUnderflow / OutOfGas / NotActivated - the transaction state untouched in every case (C04_interpreter_jump); JUMPI with condition 0 falls through without validating, a taken '
                'JUMPI is a JUMP (C04_interpreter_jumpi); every instruction of any opcode moves the program counter from an instruction start of the padded code to an instruction start '
                '(next instruction, behind PUSH data, or accepted destination; C04_interpreter_step_keeps_instruction_start), hence along a whole run - every nested call and create frame included, '
                'each on its own code - every instruction is executed from an instruction start; a position inside the code is not PUSH data, a position beyond it is padding = STOP '
                '(C04_interpreter_pc_is_instruction_start, C04_interpreter_pc_not_in_push_data).',
     level_note='Trusted: Coq kernel + vm_compute; Rust harness; the model-code tie is differential (sampled), the theorems are universal over the model. '
                'No axioms (closed under the global context).',
     modelled=['the pointer loop of analyze (unsafe pointer arithmetic, BitVec::set_unchecked) is modelled as structural recursion with a skip counter; '
               'memory safety of that loop is not claimed here (C25)',
               'gas charging and stack pops of JUMP/JUMPI are outside the component model (C12/C13); they are part of the interpreter theorems'],
     partial='interpreter theorems: legacy bytecode only (no EOF: RJUMP* are C26); that a frame\'s code is a byte string of length + 33 <= 2^64 (code_ok) is a hypothesis per frame - true of every Bytes value in Rust, '
             'not derived from a well-formedness invariant of the code table / memory of the Gallina world; the run-level statement is over the states a run executes from (reach), '
             'which includes runs that later run out of fuel or hit a model panic point',
     design_ref='5 (C04)')

prop(id='C27',
     title='stored bytecode keeps its original bytes and hash',
     coq=['Props/C27.v', 'Corr/C27.v'],
     props_files=['Props/C27.v'],
     drivers=[{'name': 'c27', 'module': 'C27', 'profiles': DBG_ONLY}],
     technique='Coq proof over all byte lists / addresses on a model of Bytecode, LegacyAnalyzedBytecode and Eip7702Bytecode (Model/Bytecode.v, '
               'Model/Jump.v) with an executable Keccak-256 in Gallina (Base/Keccak.v); vm_compute correspondence of every accessor, decode result '
               'and hash with revm_primitives on generated bytes',
     level_text='Machine-checked theorems (Coq 8.16.1) for every byte list: new_raw_checked classifies by the prefix ef00 / ef01 / other; every value '
                'that is built reports exactly the input as original_bytes / original_byte_slice / len; to_analysed preserves original bytes, length and '
                'hash for every variant; hash_slow = KECCAK_EMPTY if empty else keccak256(original bytes), with KECCAK_EMPTY = keccak256 [] computed, hence '
                'hash_slow = keccak256(original bytes) always; EIP-7702: new(a) has raw ef0100++a (23 bytes), address a, new_raw(raw(new a)) = Ok(new a), '
                'new_raw accepts exactly ef0100++(20 bytes) and the three errors are characterised exactly; decode then re-encode gives the same 23 bytes. '
                'keccak256 is an executable Gallina definition (Keccak-f[1600], rate 136, pad 0x01..0x80) checked on known vectors and compared with the '
                "implementation's keccak256 on every correspondence case (lengths 0..64, 134..138, 271..273, 407..409, random < 300).",
     level_note='Trusted: Coq kernel + vm_compute; Rust harness; the model-code tie is differential (sampled), the theorems are universal over the model. '
                'No axioms (closed under the global context).',
     modelled=['keccak256 (alloy-primitives / tiny-keccak) is represented by the Gallina definition Base/Keccak.v, validated by test vectors and by '
               'comparison on every generated case, not proved equal to FIPS-202 text',
               'Eof::decode is a parameter of the model (success predicate); only the classification and the retention of the raw bytes are modelled here (codec: C26)',
               'LegacyAnalyzedBytecode::original_bytes slices bytecode[..original_len] and panics if original_len exceeds the length (reachable only through '
               'the unsafe constructor Bytecode::new_analyzed); the model uses firstn'],
     design_ref='5 (C27)')

prop(id='C05',
     title='opcodes and precompiles exist exactly from their activating hardfork',
     coq=['Props/C05.v', 'Corr/C05.v'],
     props_files=['Props/C05.v'],
     drivers=[{'name': 'c05', 'module': 'C05', 'profiles': DBG_ONLY}],
     gen=True,
     exhaustive=True,
     technique='Coq proof by computation over reflected tables: every SpecId x opcode byte x {legacy, EOF} executed through make_instruction_table '
               '(Gen/OpGate.v) and every SpecId precompile set (Gen/Precompiles.v) equal the EIP tables of Spec/GateSpec.v; the same cells plus '
               'whole-EVM observations (one-opcode contracts as transactions, transactions and CALLs to addresses 0x01..0x14) are evaluated as cases',
     level_text='Machine-checked (Coq 8.16.1, vm_compute + forallb_forall, bounds in the statements): for all 21 SpecIds of the mainnet build and all 256 bytes, '
                'the class of executing the byte in legacy code (defined / later hardfork / undefined / EOF-only / INVALID) equals the table written from the EIPs; '
                'the same for EOF code in OSAKA+ (including the bytes EOF validation rejects); undefined-instruction behaviour iff not introduced; '
                'Precompiles::new(from_spec_id s) and load_precompiles::<SPEC>() equal the EIP address sets for every SpecId. '
                'Exhaustive cases additionally check halt class and gas_used = gas_limit through a real Evm, and precompile vs empty-account behaviour of every low address.',
     level_note='Trusted: Coq kernel + vm_compute; the reflector/driver harness/src/p_c05.rs (one instruction is dispatched the way the crate-private Interpreter::step does); '
                'Spec/GateSpec.v is my transcription of the EIPs. No axioms.',
     modelled=['the instruction tables are observed on one prepared interpreter state per cell (64 stack words = 1, 10M gas, 1 KiB memory, DummyHost); '
               'the gate macros do not depend on that state'],
     partial='Optimism SpecIds (feature optimism) are not covered; EOF cells before OSAKA are proved equal to the same table but are outside the property (no EOF code exists there); '
             'precompile behaviour is checked on one input per address (exact gas/output on empty input, distinguishability from an empty account on a 99-byte input), not the precompile functions themselves (C23).',
     design_ref='5 (C05)')

prop(id='C10',
     title='a static call cannot change state',
     coq=['Proofs/EvmStaticProofs.v', 'Props/C10.v', 'Corr/C10.v'],
     props_files=['Props/C10.v'],
     drivers=[{'name': 'c10', 'module': 'C10', 'profiles': DBG_ONLY}],
     gen=True,
     allow_axioms=['functional_extensionality_dep'],
     technique='Coq proof: (finite) reflected table of every SpecId x opcode executed with is_static=true and of CallInputs.is_static per call opcode '
               '(Gen/StaticGate.v) equals the EIP-214/EOF table; (model) mutual induction over frame trees (Model/StaticFrame.v): a static frame leaves the '
               'world state unchanged; (composition) the same theorem on the reference interpreter of C01 (Model/Step.v + Model/Evm.v over Model/Host.v / Frames.v): induction on fuel over '
               'exec with nested do_call, per-instruction and per-host-operation preservation of a state-visible projection of the C06 observation, reverts discharged by the C06 theorem '
               '(Proofs/EvmStaticProofs.v); random call trees below STATICCALL on a real Evm with journaled-state snapshots at Inspector::call / call_end evaluated in Coq',
     level_text='Machine-checked (Coq 8.16.1): for all 21 SpecIds x 256 bytes x {legacy, EOF} x {value 0, value 1}, executing an instruction with is_static=true is refused with '
                'StateChangeDuringStaticCall exactly for SSTORE/TSTORE/LOG0-4/CREATE/CREATE2/SELFDESTRUCT/EOFCREATE and with CallNotAllowedInsideStatic exactly for CALL/EXTCALL with value; '
                'CallInputs.is_static = parent || STATICCALL/EXTSTATICCALL for every call opcode and SpecId (tables reflected from the compiled code, proof by vm_compute). '
                'For the frame-tree model: every mutating attempt fails a static frame, and for ALL trees a static frame / static call leaves storage, transient storage, logs, balances, '
                'nonces, created and destructed sets unchanged (induction). '
                'On the reference interpreter (every legacy opcode, make_call_frame / call_return, journal checkpoints; tied to the Rust code by the C01 correspondence): for every world, fuel and '
                'reachable state (C06 invariant), a frame with f_static = true whose run ends - with all nested CALL/CALLCODE/DELEGATECALL/STATICCALL frames at any depth, completed, reverted or halted - '
                'leaves per address balance, nonce, code, created / selfdestructed / loaded-as-not-existing flags, per slot original and present value, transient storage, the log list, the code table and '
                'the log table unchanged (C10_interpreter_static_frame_preserves_state); every call request of a static frame asks for a static callee and moves no value between different accounts, '
                'and a static frame never issues a create (C10_interpreter_child_of_static_is_static); in a static frame SSTORE/TSTORE/LOG0-4/CREATE/CREATE2/SELFDESTRUCT and CALL with a non-zero value end the frame '
                'with a failure before the journaled state is asked (C10_interpreter_mutation_fails_static_frame, C10_interpreter_value_call_fails_static_frame); a STATICCALL from any frame - instruction, make_call_frame, callee, call_return - changes nothing '
                'state-visible for its caller (C10_interpreter_staticcall_preserves_state). Excepted by the statement, because the code does change them: warm/cold marks of accounts and slots and the '
                'touched flag (Transfer(0) in make_call_frame touches the target also in a static call; CALLCODE with value inside a static frame is a self-transfer). The whole EVM is tied by random call trees (DELEGATECALL/CALLCODE/CALL/STATICCALL and, from OSAKA, EXTCALL/EXTDELEGATECALL/EXTSTATICCALL chains, nesting 1-6) with state snapshots compared in Coq.',
     level_note='Trusted: Coq kernel + vm_compute; harness/src/p_c10.rs (reflector, generator, recording Inspector); the frame-tree model is hand-written and tied to the code by the reflected table '
                '(per-instruction behaviour) and by sampled whole-EVM runs (wiring of make_call_frame / call_return), not by a refinement proof; the interpreter theorems are about Model/Step.v + Model/Evm.v, '
                'whose tie to the Rust code is the sampled C01 correspondence. Axioms: functional extensionality (standard library) in the interpreter theorems, through the C06 observation (maps as functions); none elsewhere.',
     modelled=['frame execution (interpreter loop, journal checkpoint/revert, value transfer) is modelled in Model/StaticFrame.v, not extracted from the code',
               'the reflected table is observed on one prepared interpreter state per cell (64 stack words all 0 or all 1)'],
     partial='interpreter theorems: legacy bytecode only (the reference interpreter has no EOF: EXTCALL/EXTDELEGATECALL/EXTSTATICCALL/EOFCREATE are covered by the reflected table and the abstract frame-tree model only); '
             'statements are conditional on the run ending (XDone: out-of-fuel and model panic points are outside) and on the C06 invariant HostRevert.Inv at the start of the frame (established at transaction start and preserved by every operation, '
             'but not re-derived here for the state after load_access_list / deduct_caller / EIP-7702 authorisations of run_tx); warm/cold marks, the touched flag and the journal are outside the projection (so EIP-161 deletion of an empty account touched inside a static call is not excluded by the theorem: '
             'it is what revm does). '
             'whole-EVM runs: the static root is always a legacy STATICCALL; EOF contracts (EXTCALL/EXTDELEGATECALL/EXTSTATICCALL/EOFCREATE) take part from OSAKA as unvalidated containers; '
             'touched status and warm/cold status are excluded from the compared state (EIP-161 deletion of a touched empty account at transaction end is therefore not observed); Optimism SpecIds not covered.',
     design_ref='5 (C10)')

prop(id='C20',
     title='database wrappers',
     coq=['Props/C20.v', 'Corr/C20.v'],
     props_files=['Props/C20.v'],
     drivers=[{'name': 'c20', 'module': 'C20', 'profiles': DBG_ONLY}],
     technique='Coq proof: refinement CacheDB -> plain data by induction over histories with an invariant on _ref views (Model/Db.v, Spec/DbSpec.v, std++ gmap) '
               '+ vm_compute correspondence with the real CacheDB / State / WrapDatabaseRef / auto_impl forwards / DatabaseComponents',
     level_text='Machine-checked theorems (Coq 8.16.1, std++ gmap) for every wrapped database (finite maps + arbitrary has_storage answer) and every history of '
                'queries (through &mut methods, _ref methods, WrapDatabaseRef, auto_impl forwards, DatabaseComponents), commits of EVM output, insert_account_info, '
                'insert_account_storage, replace_account_storage, insert_contract: every answer through CacheDB equals the answer of plain data "underlying + committed '
                'changes"; &mut and _ref variants agree and a &mut query changes no later answer; State reads from an empty cache return the wrapped data, block hashes '
                'regardless of caching/pruning. has_storage: never misses existing storage; exact when no non-zero slot of the wrapped data is overwritten with zero '
                'through the wrapper (otherwise over-approximation: known finding). The model is tied to the code by executing the real wrappers on generated histories and '
                'evaluating model + plain-data oracle inside Coq.',
     level_note='Trusted: Coq kernel + vm_compute; Rust harness; the model-code tie is differential (sampled), the theorems are universal over the model. No axioms.',
     modelled=['HashMap/BTreeMap as std++ gmap', 'AccountInfo without its optional code field (AccountInfo::eq ignores it)', 'bytecode as an id, hash_slow as an input of the write operation',
               'infallible databases (error propagation by ? not modelled)', 'EvmState reduced to flags, info and present slot values; iteration order of a commit fixed (accounts commute)'],
     partial='State: only the read side from an empty cache is proved (commit is C15); State preloading calls (insert_not_existing / insert_account(_with_storage)) are checked by the correspondence oracle only. '
             'Bundle-preloaded State (use_preloaded_bundle) is not modelled.',
     known_classes={10: 'C20-has-storage-after-zeroing', 11: 'C20-components-no-has-storage'},
     assumptions=['(a) the wrapped data is well-formed: no storage and no has_storage=true for an address whose basic() is None (otherwise CacheDB::storage and storage_ref disagree: C20_mut_ref_agree_needs_wf_refuted)',
                  '(b) code is content addressed and code_by_hash is asked only for hashes of known code (a miss of the wrapped database is cached and a later insert of that hash is ignored by or_insert)',
                  '(c) replace_account_storage is applied to existing accounts only (on a non-existing account basic() turns from None into Some(default))',
                  '(d) for the has_storage clauses: the wrapped database never misses storage it holds (has_sound), resp. is exact (has_complete)'],
     design_ref='5 (C20)')

prop(id='C21',
     title='create collision with storage (EIP-7610)',
     coq=['Props/C21.v', 'Corr/C21.v'],
     props_files=['Props/C21.v'],
     drivers=[{'name': 'c21', 'module': 'C21', 'profiles': DBG_ONLY}],
     technique='Coq proof over the decision part of make_create_frame / create_account_checkpoint (Model/CreateCollision.v) combined with the C20 has_storage theorems '
               '+ vm_compute correspondence on a matrix of creates executed by the real Evm over every database layer',
     level_text='Machine-checked theorems (Coq 8.16.1): when the earlier checks pass, the create ends in CreateCollision iff the target has code, a non-zero nonce or '
                'has_storage; on a collision no gas is handed back (insert_create_outcome / last_frame_return give gas back for ok/revert classes only), the target account '
                'is unchanged, the creator nonce stays bumped; through a CacheDB after any history (C20 refinement) and through State a non-zero slot held by any layer makes '
                'has_storage true, hence the create collides. Tied to the code by executing create transactions and CREATE/CREATE2 from a factory contract on the real Evm for '
                '13 SpecIds x 8 database layers x 7 target pre-states and evaluating model + property oracle in Coq.',
     level_note='Trusted: Coq kernel + vm_compute; Rust harness; the model-code tie is differential (finite matrix with random addresses / nonces / gas), the theorems are universal over the model. No axioms.',
     modelled=['address derivation and precompile membership are inputs of the model', 'the interpreter gas hand-back (insert_create_outcome, last_frame_return) as a result-class table',
               'gas between the two GAS readings of the factory contract: 3 per PUSH, 32000 CREATE, 63/64 rule'],
     partial='A database that holds storage for an address it has no account info for (basic() = None, has_storage() = true) is inconsistent; it is put only to the layers that pass has_storage through or hold the slot themselves (custom database, WrapDatabaseRef, slots inserted into a CacheDB): State and CacheDB-over-a-database remember the missing account as not existing and answer "no storage" from that entry. EOFCREATE / EOF create transactions are not executed by the harness (model only: make_eofcreate_frame has the same order of checks after its container decoding). '
             'DatabaseComponents is not in the matrix: it never reports storage (known finding C20-components-no-has-storage). has_storage is asked of the database only: storage written earlier '
             'in the same transaction is not seen (cannot matter: such an account has a non-zero nonce or was self-destructed).',
     assumptions=['C20 hypotheses (a)-(d) for the layer theorems'],
     design_ref='5 (C21)')

prop(id='C06',
     title='checkpoint revert restores the journaled state',
     coq=['Props/C06.v', 'Corr/C06.v'],
     props_files=['Props/C06.v'],
     drivers=[{'name': 'c06', 'module': 'C06', 'profiles': DBG}],
     allow_axioms=['functional_extensionality_dep'],
     technique='Coq proof: journal-undo invariant by induction over arbitrary operation histories with nested checkpoints (Model/Host.v) + vm_compute correspondence with revm::JournaledState',
     level_text='Machine-checked theorem (Coq 8.16.1) over ALL databases, well-formed journaled states and operation histories (13 operation kinds, nested '
                'checkpoint/commit/revert in any order, balances up to 2^256-1 with wrapping U256 arithmetic): checkpoint_revert restores the complete observation '
                '(balances, nonces, code, flags, warm/cold status of accounts and slots, original/present slot values, transient storage, logs, journal, depth). '
                'The model mirrors journaled_state.rs function by function and is tied to the code by executing the real JournaledState over CacheDB on generated '
                'histories (per-operation answers and three full state dumps compared inside Coq), with the property itself as oracle on the implementation\'s dumps.',
     level_note='Trusted: Coq kernel + vm_compute; functional_extensionality_dep (Coq standard library axiom, used to compare maps represented as functions); '
                'Rust harness; model-code tie is differential (sampled). Hypotheses (the contract under which revm calls these functions, shown satisfiable by an Example): '
                'set_code only on accounts with empty code, has_storage answered truthfully for creation targets, creator <> created address, a target already marked '
                'created collides. EIP-161 touch of precompile 0x03 is excepted as the property allows (DESIGN.md 6.3).',
     modelled=['HashMap as partial functions; Bytecode as an identity; database infallible; ruint U256 += / -= wrap modulo 2^256',
               'EvmContext frame functions (make_call_frame etc.) are covered by C07, not here'],
     assumptions=['hop_ok contract (Proofs/HostMain.v); WF: balances < 2^256, created accounts have no database storage, journal non-empty'],
     design_ref='5 (C06)')

prop(id='C32',
     title='blob fee functions',
     coq=['Props/C32.v', 'Corr/C32.v'],
     props_files=['Props/C32.v'],
     drivers=[{'name': 'c32', 'module': 'C32', 'profiles': DBG}],
     technique='Coq proof: lock-step refinement of the U256-checked fake_exponential loop (Model/Blob.v) against the EIP-4844 loop on '
               'unbounded integers (Spec/BlobSpec.v), termination and fuel bound by a doubling/halving argument, '
               '+ vm_compute correspondence with revm_primitives::{fake_exponential, calc_blob_gasprice, calc_excess_blob_gas, BlobExcessGasAndPrice, BlockEnv}',
     level_text='Machine-checked theorems (Coq 8.16.1) for ALL u64 factor/numerator/denominator (denominator > 0), both update fractions and all '
                'excess/used/target values: the EIP-4844 loop terminates with a unique value v; the model returns v when v < 2^128 and exactly '
                'u128::MAX otherwise (a 256-bit overflow of an intermediate implies v >= 2^128; 2048 loop iterations always suffice); '
                'calc_excess_blob_gas = min(max(0, a+b-t), 2^64-1). The model mirrors the repaired Rust functions (U256 checked_add/checked_mul '
                'points explicit) and is tied to the code by executing the real functions on generated inputs and evaluating model and an '
                'unbounded-integer oracle inside Coq on the same inputs.',
     level_note='Trusted: Coq kernel + vm_compute; Rust harness; the model-code tie is differential (sampled), the theorems are universal over the model. '
                'No axioms (closed under the global context).',
     modelled=['ruint U256 checked_add/checked_mul/wrapping mul/div and saturating_to::<u128> are written into the model by hand',
               'the blob constants MIN_BLOB_GASPRICE and the two update fractions are literals in Model/Blob.v, tied to the compiled constants through the calc_blob_gasprice cases'],
     partial=[],
     design_ref='5 (C32), 7 (F9, F10: repaired by fix: commits 186f4e6d, f8d43e51)')

prop(id='C14',
     title='dynamic gas formulas',
     coq=['Props/C14.v', 'Corr/C14.v'],
     props_files=['Props/C14.v'],
     drivers=[{'name': 'c14', 'module': 'C14', 'profiles': DBG}],
     gen=True,
     known_classes={10: 'C14-num-words-top31'},
     technique='Coq proof: function-by-function model of gas/calc.rs (Model/GasCalc.v; constants and the SpecId::enabled matrix reflected '
               'from the compiled code into Gen/GasConst.v, Gen/Specs.v) proved equal to EIP formulas on unbounded integers (Spec/GasSpec.v) by '
               'case analysis over all SpecIds and all equality relations of original/present/new + vm_compute correspondence with the real '
               'revm_interpreter::gas functions and real opcodes on a real Interpreter',
     level_text='Machine-checked theorems (Coq 8.16.1) for ALL u64/U256 arguments and ALL 21 SpecIds: per-word costs (copy, extcodecopy, keccak256, '
                'create2, initcode, cost_per_word, log) return Some v iff the EIP value fits in u64 and v equals it (lengths <= 2^64-32); exp_cost incl. '
                'the limb-wise log2floor; memory_gas w = min(3w + w^2/512, 2^64-1); sload/sstore cost and refund (EIP-2200/2929/3529, stipend rule) for '
                'every original/present/new relation; selfdestruct, call, warm/cold(+EIP-7702 delegation) costs; calldata tokens, EIP-7623 floor and '
                'intrinsic gas (EIP-2/2028/2930/3860/7702) for every byte string and list lengths < 2^32; the executed SpecId::enabled matrix equals '
                'the chronological fork order and every gas constant has its EIP value. The model is tied to the code by executing the real '
                'functions (and real KECCAK256/CALLDATACOPY/LOG/EXP/SLOAD/SSTORE/MSTORE/EXTCODECOPY/SELFDESTRUCT/CREATE2/CALL opcodes on a real Interpreter, at the out-of-gas boundary) and evaluating model '
                'and specification inside Coq on the same inputs.',
     level_note='Trusted: Coq kernel + vm_compute; Rust harness and reflector; the model-code tie is differential (sampled) except for the reflected '
                'finite tables (SpecId matrix, constants), the theorems are universal over the model. No axioms (closed under the global context).',
     modelled=['u64/usize machine arithmetic of rustc (checked_*, saturating_*, unguarded + and * as overflow points) and ruint U256 checked ops are written into the model by hand',
               'SStoreResult / AccountLoad / SelfDestructResult are modelled by their fields; an access list by the list of its storage-key counts',
               'CONSTANTINOPLE is given the PETERSBURG rules (EIP-1283 withdrawn), as in revm'],
     partial=['per-word theorems hold for len <= 2^64-32; for the 31 larger lengths num_words is one word short (known finding C14-num-words-top31, C14_per_word_top31_refuted)',
              'intrinsic-gas theorems assume input/access-list/authorization lengths < 2^32 (no-overflow bound of the unguarded Rust sums)',
              'the step-by-step opcode charge model (Corr.C14.op_model) is proved equal to the EIP totals for KECCAK256/CALLDATACOPY/LOG/EXP/SLOAD/SSTORE/MSTORE/EXTCODECOPY/SELFDESTRUCT/CREATE2/CALL; that this step model matches the real instructions is checked by correspondence only (real Interpreter, scripted Host)'],
     design_ref='5 (C14), 7 (F12: repaired by fix: commit 572b9d6f)')

prop(id='C26',
     title='EOF codec and validation',
     coq=['Proofs/EofValidateTables.v', 'Proofs/EofValidateStep.v', 'Proofs/EofValidateDispatch.v',
          'Proofs/EofValidateProofs2.v', 'Proofs/EofValidateSection.v', 'Proofs/EofValidateContainer.v',
          'Proofs/EofValidateSafe.v', 'Proofs/EofValidateTotal.v', 'Proofs/EofValidateTotal2.v', 'Props/C26.v', 'Corr/C26.v'],
     props_files=['Props/C26.v'],
     drivers=[{'name': 'c26', 'module': 'C26', 'profiles': DBG_ONLY}],
     gen=True,
     technique='Coq proof over all byte lists of a function-by-function model of Eof::decode / encode_slow / decode_dangling '
               '(Model/Eof.v: every slice and index is an option-returning accessor, out of range = Panic) + an executable model of '
               'validate_raw_eof_inner / validate_eof_codes / validate_eof_code (Model/EofValidate.v, opcode table reflected from the compiled '
               'code into Gen/EofOps.v) + loop-invariant proofs over that model (instruction loop, section worklist, nested-container stack) '
               'that acceptance implies the independent safety predicate + vm_compute correspondence with the real codec and validator (exact error variants) on random, '
               'mutated, shipped (tests/eof_suite) and structurally generated containers; accepted containers are executed on an OSAKA Evm '
               'under a per-step monitor and checked against an independent safety predicate (Spec/EofSafe.v)',
     level_text='Machine-checked theorems (Coq 8.16.1) for EVERY byte list: decode bs = Ok e -> encode_slow e = bs and raw e = bs (no guard '
                'needed, also with a data section shorter than declared); decode and decode_dangling never reach an out-of-range slice/index '
                '(Panic unreachable); what decodes is well formed and well-formed containers encode to bytes that decode back to them; '
                'decode_dangling splits exactly at eof_size, the prefix decodes on its own to the same container with a filled data section, and '
                'every extension of a filled container is accepted with the extension returned untouched; decode-level facts used by the '
                'interpreter (one types entry per code section, 1..1024 non-empty code sections, <= 256 non-empty sub-containers, the bounds of '
                "RETURNCONTRACT's usize subtractions and data_size patch). Validation: the model is a pure function; acceptance implies decode "
                'succeeds, data filled, types count = code count, first section (0, 0x80). VALIDATION SOUNDNESS of the validator model, for every byte string: '
                '(1) an accepted code section splits into whole instructions with enabled opcodes up to its end, every RJUMP/RJUMPI/RJUMPV target is an '
                'instruction start inside the section, CALLF/JUMPF/EOFCREATE/RETURNCONTRACT/DATALOADN operands are in range and the last instruction is '
                'terminating (walk_safe, stated over a plain instruction walk, not over the validator\'s table); (2) the recorded stack-height intervals '
                'form a certificate closed under the section\'s control flow, and every (pc, height) an execution of the section can reach has: no underflow, '
                'height <= declared max_stack_size, CALLF/JUMPF room and output rules, height = outputs at RETF, no RETF in a non-returning section; '
                '(3) these hold for EVERY code section of the container and of every nested sub-container, each sub-container decodes and is accepted with '
                'the kind (init code / runtime) its EOFCREATE / RETURNCONTRACT uses require, init-code containers have filled data (container_valid); '
                '(4) validate_raw_eof_inner_r bs k = accepted -> decode bs = Ok e and Spec/EofSafe.container_safe (S (length bs)) e = true. '
                'Validation of the model never reaches an out-of-range index nor runs out of the loop fuel (VPanic unreachable, C26_validation_never_panics). '
                'The models are tied to the code by running the real implementation on the same inputs and comparing every field / exact error variant inside Coq.',
     level_note='Trusted: Coq kernel + vm_compute; Rust harness (its independent container encoder, instruction-start scanner and step monitor, '
                'hex packing of byte strings); the reflector printing OPCODE_INFO_JUMPTABLE; the model-code tie is differential (sampled), '
                'the theorems are universal over the model. No axioms.',
     modelled=['usize/i32/isize arithmetic of the codec and validator is written over Z (sizes are u16 and at most 65535 of them: sums stay below 2^64; '
               'a debug-build overflow would be observed as a panic by the harness)',
               'Bytes::slice / split_off / indexing and the unsafe read_i16/read_u16 pointer reads are modelled as option-returning accessors',
               'validate_eof_code (stack heights, jump targets, access tracker), validate_eof_codes and validate_eof_inner are modelled executable '
               'and compared with the code on every case (exact EofValidationError); the soundness theorems are about this model',
               'execution of accepted containers is observed (real Evm, OSAKA, inspector monitor: pc on an instruction start of the current section, '
               'section index in range, return frames inside code, stack <= 1024, no panic), not modelled',
               'EofBody::into_eof (Eof::new) is modelled but outside the property (its `as u16` casts truncate for oversized bodies)'],
     partial='The second half of the property ("every accepted container executes without reaching an interpreter path that assumes a valid '
             'container") is proved as far as the VALIDATOR goes and not for the interpreter: PROVED for all byte strings of the validator model '
             '(C26_validated_section_walk_safe, C26_validated_jump_targets_and_last_instruction, C26_validated_section_stack_certificate, '
             'C26_validated_stack_heights, C26_validated_container, C26_validated_container_safe, C26_validation_never_panics): relative-jump targets are instruction starts inside the '
             'section, the last instruction terminates, operand ranges, the stack-height facts (per instruction and along every path of the section-local '
             'height semantics hreach), the lifting to all code sections of all nested containers with the right kinds, EOFCREATE targets have filled data, and '
             'container_safe for every accepted input; the model validator never panics (indices in range, loop fuel sufficient). STILL ONLY CHECKED (not proved): that the Coq model equals the Rust validator (differential, sampled; '
             'exact error variants); that the interpreter (control.rs, contract.rs, data.rs) is safe on containers with these facts - nothing is proved about the '
             'interpreter itself, every accepted generated container is executed on the real Evm under the step monitor; the height semantics hreach is '
             'section-local (a CALLF is assumed to return with the callee\'s declared outputs, which is the RETF clause proved for the callee, but the '
             'inter-section composition and the 1024-item bound across nested calls are not assembled into one theorem; max_stack_size <= 1023 comes from '
             'C26_decoded_well_formed); hreach is my statement of the EIP-5450 height effect of instructions (reflected OPCODE_INFO_JUMPTABLE inputs/outputs), '
             'not derived from the interpreter. Validation determinism is by construction in the model and observed '
             '(two calls, second on a fresh copy) on the implementation. Containers longer than ~1.5 kB are only sampled in thorough tier.',
     design_ref='5 (C26)')

prop(id='C34',
     title='cold / warm access',
     coq=['Proofs/EvmAccessProofs.v', 'Props/C34.v', 'Corr/C34.v', 'Corr/C34t.v'],
     props_files=['Props/C34.v'],
     drivers=[{'name': 'c34', 'module': 'C34', 'profiles': DBG_ONLY},
              {'name': 'c34t', 'module': 'C34t', 'profiles': DBG_ONLY}],
     allow_axioms=['functional_extensionality_dep'],
     technique='Coq proof: refinement of all is_cold answers to an execution-spec style accessed-set specification by a frame-chain simulation over arbitrary histories (on top of the C06 journal invariant) + vm_compute correspondence with revm::JournaledState; '
               'whole transactions on the real Evm judged by the same specification (trace oracle proved equal to spec_run) started from the EIP-2929/2930/3651/7702 initial sets (the EIP-2935 history contract is not pre-warmed: final EIP); '
               '(composition, Proofs/EvmAccessProofs.v) the same property on the reference interpreter of C01 (Model/Step.v + Model/Evm.v): per access-causing instruction the charge of step is the cold price exactly when the '
               'address / slot is not warm in the pre-state observation; the create-free interpreter is instrumented with its history of journaled-state operations (exec_nc_h, erasure = exec_nc) and the is_cold answers along '
               'that history are the answers of the accessed-set specification (access_refinement applied to the interpreter history); failed child frames restore every warm status (C06 lifted); '
               'run_tx pre-execution (load_access_list, deduct_caller, apply_eip7702_auth_list, first make_call_frame) against Spec/TxWarmSpec.v; monotonicity of the specification sets below all snapshots gives '
               '"transaction-level warming is never forgotten" for every history',
     level_text='Machine-checked theorems over all states and histories of the journaled-state model: an address/slot is reported cold exactly when it is not warm and is warm afterwards; '
                'pre-warmed addresses and access-list entries are warm from the start; for every history between checkpoint and revert the warm status of every address and slot is exactly '
                'the one at the checkpoint (frame accesses forgotten, transaction-level warming kept). The sequence-level refinement to the execution-spec style accessed sets (Spec/AccessSpec.v) is PROVED for all histories '
                '(C34_answers_refine_accessed_sets) and additionally evaluated on every generated history against the real JournaledState (is_cold answers of load_account, load_account_delegated, sload, sstore, selfdestruct). '
                'Second stream (c34t): real transactions (BERLIN..PRAGUE) of access-probe contracts with nested succeeding / reverting / halting frames, access lists, coinbase aliasing, repeated CREATE2, EIP-7702 lists '
                '(recovered and signed tuples) are run on the real Evm under a recording inspector; the gas charged by every BALANCE / EXTCODESIZE / EXTCODEHASH / EXTCODECOPY(0) / SLOAD step and the access part of every zero-value, '
                'memory-free CALL / CALLCODE / DELEGATECALL / STATICCALL step must be exactly the 100 / 2600 / 2100 the accessed-set specification predicts from the initial sets of Spec/TxWarmSpec.v (sender, recipient or created address, '
                'precompiles of the fork, coinbase from Shanghai, access list, EIP-7702 authorities and the delegation target of tx.to), an out-of-gas probe must have had less gas than that price; '
                'the trace oracle is proved to be spec_run on the translated history (C34_trace_oracle_is_the_accessed_set_spec), so the proved refinement and the transaction-level check speak about one specification.',
     level_note='Trusted: Coq kernel + vm_compute; functional_extensionality_dep; Rust harness (recording inspector reads operands from the stack before the step and gas before/after); differential tie. ',
     partial='The handler code that builds the transaction-level warm set (load_accounts, set_precompiles, deduct_caller, apply_eip7702_auth_list, first frame) and the opcode gas code are not modelled in Coq: they are '
             'checked by running real transactions against the specification (sampled, stream c34t), not proved. In that stream the charges of SSTORE, SELFDESTRUCT, CREATE/CREATE2, value-bearing or memory-growing calls and '
             'EXTCODECOPY of a non-empty range are not judged (their accesses are replayed so that later probes are judged; the amounts are C14); the address of a CREATE/CREATE2 is taken from the inspector, the recovered '
             'authority of a signed tuple from SignedAuthorization::recover_authority; a creation that fails the nonce-overflow check is indistinguishable from a success for the recorder (not generated). '
             'Pre-Berlin forks are not generated (no cold / warm there). '
             'Composition theorems (C34_interpreter_*): instruction level complete for BALANCE / EXTCODESIZE / EXTCODECOPY / EXTCODEHASH / SLOAD / SSTORE / CALL family / SELFDESTRUCT from BERLIN; frame level and '
             '"never forgotten" for the create-free interpreter exec_nc (frames that execute CREATE / CREATE2 are outside; C34_warm_below_checkpoints_never_forgotten itself covers creates at the journaled-state level); '
             'transaction level: equality with Spec/TxWarmSpec.v proved below PRAGUE (up to the recipient, shown warm after the first frame for call transactions; the created address of a creation transaction is not treated); '
             'from PRAGUE the authorities agree and the delegation target of tx.to is stated on the model delegation only (C34_interpreter_initial_sets_from_prague_partial).',
     modelled=['see C06 (Model/Host.v)',
               'Spec/TxWarmSpec.v follows the final EIP-2935 and the Prague execution specification: the history-storage contract is not pre-warmed (the tree pre-warmed the draft address 0x25a2...a4fb until fix 84686aaa; both that address and the final one are probed by the c34t stream)'],
     design_ref='5 (C34)')

prop(id='C12',
     title='interpreter stack',
     coq=['Proofs/EvmMiscProofs.v', 'Proofs/EvmMiscStack.v', 'Props/C12.v', 'Corr/C12.v'],
     props_files=['Props/C12.v'],
     drivers=[{'name': 'c12', 'module': 'C12', 'profiles': DBG}],
     technique='Coq proof: refinement of the Vec-level model (Model/Stack.v: index arithmetic, guards, 64-bit limbs of push_slice) to an abstract '
               'LIFO (Spec/StackSpec.v), length invariant by induction over operation lists + vm_compute correspondence with '
               'revm_interpreter::Stack and with Interpreter::run on stack-opcode programs; '
               'composition (Proofs/EvmMiscStack.v): on the reference interpreter of C01 (Model/Step.v keeps the stack as a top-first list and performs pop!/push! itself, so the statements are '
               'proved directly on it, not through Model/Stack.v): exhaustive case analysis of step over every opcode against the (inputs, outputs) table reflected from the compiled revm '
               '(Gen/OpInfo.v), then the bound as an invariant along exec (induction over reach, Proofs/EvmMiscProofs.v)',
     level_text='Machine-checked theorems (Coq 8.16.1): length <= 1024 for all operation lists; every method (push, pop, peek, set, dup, swap, '
                'exchange, push_slice, push_b256, unsafe pop/top variants) equals the abstract LIFO operation including the exact error value, for all '
                'stacks within the limit and all u64/u256 arguments, and whole histories refine; a non-successful call leaves the stack unchanged; '
                'dup/exchange raw-pointer indices lie inside the vector and do not overlap; push_slice writes exactly 4*ceil(n/32) limbs and equals, '
                'for every byte list, "append the big-endian values of the 32-byte chunks" with an exact overflow check; a short last chunk is '
                'right-aligned (DESIGN 6.1). The model is tied to the code by running the real Stack / Interpreter on generated histories and '
                'evaluating model + abstract-LIFO oracle inside Coq on the same histories. '
                'On the reference interpreter (tied to the Rust code by the C01 correspondence), for every opcode, hardfork, world and state with at most 1024 words: an instruction that lets the frame '
                'continue has taken exactly the inputs and left exactly the outputs of the reflected opcode table (the inputs were there) and the result has at most 1024 words; a CALL-family / CREATE '
                'instruction takes its inputs and the resumed caller has its one output; StackUnderflow is reported only when fewer than inputs words are there and an instruction whose inputs exceed the '
                'stack never continues; StackOverflow only when the result would exceed 1024; in both cases the output is empty and the transaction state (journaled state, checkpoints, code table, logs) is '
                'exactly what it was (C12_interpreter_instruction_stack_effect, C12_interpreter_short_stack_ends_frame, C12_interpreter_call_stack_effect); along a whole run, in the frame and in every '
                'nested frame, no state holds more than 1024 words (C12_interpreter_stack_bounded). One exception stated in the theorem because it is what revm does: SELFBALANCE asks the host before it '
                'pushes, so on a full stack the frame ends with StackOverflow after the executing account has been (re-)loaded.',
     level_note='Trusted: Coq kernel + vm_compute; Rust harness; the model-code tie is differential (sampled), the theorems are universal over the model. '
                'No axioms (closed under the global context).',
     modelled=['Vec<U256> as a list (capacity/uninitialised tail not represented: dup and push_slice append)',
               'assume!(n > 0)/assume!(m > 0) and the usize overflow of n + m as a Panic outcome (release: undefined behaviour, never exercised)',
               'U256 as 4 little-endian u64 limbs in push_slice'],
     partial='memory safety of the unsafe copies is argued only through the index/limb-count lemmas (no Rust memory model); '
             'interpreter theorems: word counts only - which words an instruction leaves (LIFO order, DUP/SWAP positions, values) is the component refinement above plus C03, not restated on the interpreter; '
             'when a stack error is reported after earlier pops of the same instruction (CALL with 3..6 words) the halted frame\'s own stack value is not claimed unchanged (it is dead); '
             'legacy bytecode only (EOF stack validation is C26)',
     design_ref='5 (C12), 6.1')

prop(id='C11',
     title='per-frame memory',
     coq=['Proofs/EvmMiscProofs.v', 'Proofs/EvmMiscStack.v', 'Proofs/EvmMiscMemory.v', 'Props/C11.v', 'Corr/C11.v'],
     props_files=['Props/C11.v'],
     drivers=[{'name': 'c11', 'module': 'C11', 'profiles': DBG},
              {'name': 'c11p', 'module': 'C11', 'profiles': DBG_ONLY}],
     technique='Coq proof: invariant and frame lemma by induction over trees of frame histories (Model/Memory.v), closed form of memory_gas, '
               'an opcode layer (Model/MemoryOps.v: MLOAD/MSTORE/MSTORE8/MSIZE/MCOPY/CALLDATACOPY/CODECOPY/RETURNDATACOPY/KECCAK256/LOGn/RETURN/REVERT/CALL '
               'through gas!/as_usize_or_fail!/resize_memory!) with a universal growth/alignment/charge theorem + '
               'vm_compute correspondence in two streams: (c11) the SharedMemory / resize_memory / insert_call_outcome API driven directly, '
               '(c11p) real programs and nested CALLs on a real Evm observed instruction by instruction through an Inspector; '
               'composition (Proofs/EvmMiscMemory.v): on the reference interpreter of C01 (Model/Step.v executes the memory instructions through Model/Memory.v): exhaustive case analysis of step over every '
               'opcode for alignment / growth, the window theorem applied to Interpreter::insert_call_outcome of Model/Evm.v, invariants along exec by induction over reach / frame_reach',
     level_text='Machine-checked theorems (Coq 8.16.1) for all trees of frame histories (own operations and complete child frames): '
                'last_checkpoint = last checkpoints <= |buffer|; a frame changes no checkpoint and no byte below its checkpoint; a child starts empty; '
                'after any complete child frame the parent buffer, size and checkpoints are exactly as before; growth exposes only zeros whatever a freed '
                'deeper context left in the allocation; resize_memory yields a word-aligned, strictly larger memory and charges '
                'memory_gas(new) - memory_gas(old); memory_gas w = 3w + w^2/512 for w < 2^32 and min(.., u64::MAX) on all of u64; '
                'insert_call_outcome rewrites only [out_off, out_off + min(out_len, |ret|)). Opcode layer, for every memory instruction, all operands, '
                'all gas values, success or failure: invariant kept, nothing below the checkpoint touched, size never shrinks and stays a multiple of 32, '
                'gas only decreases; resize_memory! charges exactly memory_gas(words after) - memory_gas(words before) and changes nothing on MemoryOOG; '
                'MSTORE costs 3 + that difference; MCOPY is a memmove for all overlaps. The model is tied to the code twice: by running the real '
                'SharedMemory / resize_memory / insert_call_outcome on generated histories, and by running generated programs (single frame and nested '
                'CALLs to depth 3, precompiles, failing / reverting / out-of-gas children, return windows shorter/equal/longer than the return data) as '
                'real transactions and replaying every observed memory instruction (operands from the real stack, gas before/after, MSIZE, memory digest, '
                'MLOAD/MSIZE values, LOG data, call inputs/outputs) on the model and on an independent per-frame oracle (unbounded-integer quadratic formula, '
                'separate zero-initialised byte list per frame, window semantics) inside Coq. '
                'On the reference interpreter (tied to the Rust code by the C01 correspondence): every frame - the first one and every child of a call or create - starts on empty memory; every instruction of any opcode, '
                'whatever its outcome, leaves the frame memory word-aligned and not smaller (C11_interpreter_instruction_keeps_memory_aligned); the size changes only through resize_memory!, which appends zeros '
                '(C11_interpreter_growth_is_zero_filled); along one frame, across its own instructions and complete calls / creates whatever the children did at any depth, the memory never shrinks and stays aligned '
                '(C11_interpreter_frame_memory_only_grows), and every state of every frame of a run is aligned (C11_interpreter_memory_invariant); when the caller resumes after a call its memory has the same size and is '
                'old prefix ++ return data[..min(ret_len, |return data|)] ++ old suffix with the copy at ret_off - untouched when that is empty or the child neither succeeded nor reverted - and byte by byte every position '
                'outside the window is what it was before the call (C11_interpreter_call_changes_only_the_return_window, C11_interpreter_bytes_outside_window_unchanged); a create leaves the caller\'s memory alone.',
     level_note='Trusted: Coq kernel + vm_compute; Rust harness; the model-code tie is differential (sampled), the theorems are universal over the model. '
                'No axioms (closed under the global context).',
     modelled=['Vec<u8> as live list + stale tail (set_len / Vec::resize semantics written by hand)',
               'debug_unreachable!/slice-index panics and usize overflow as a panic flag (release: undefined behaviour, never exercised)',
               'opcode layer: stack operands are taken as observed at Inspector::step; per-instruction gas is replayed from the observed gas before the '
               'instruction (PUSH/POP/other instructions and the gas returned by children are not modelled); CALL only with value 0 to warm, non-delegated '
               'targets in non-static frames (account access = 100, 63/64 rule) under CANCUN/PRAGUE; results of calls that get no interpreter frame '
               '(precompiles, accounts without code) are taken as observed'],
     partial='the frame theorem speaks about complete child frames (well-bracketed histories), which is how the EVM drives SharedMemory; in the program '
             'stream the KECCAK256 hash value itself is not compared (only its gas, expansion and the memory it leaves), CALLCODE/DELEGATECALL/STATICCALL/'
             'CREATE/CREATE2/EXTCODECOPY and EOF data/return opcodes are not driven (they share resize_memory!/call_helpers::resize_memory with the '
             'driven ones), memories above 2048 bytes are compared through three 64-byte windows rather than byte for byte, the memory_limit feature is off; '
             'interpreter theorems: in Model/Evm.v every frame owns its memory value (the child starts on mem_new, the caller\'s state is kept aside), so that a child cannot touch the parent\'s memory holds by '
             'construction of the interpreter - the shared-buffer content of that claim is the component theorem (frame histories) and the c11p runs, the interpreter contributes alignment / growth per instruction and '
             'the return-data window; "zero-initialised" is stated as: frames start empty and growth appends zeros (no per-byte "never written => 0" invariant); the expansion charge along the interpreter is '
             'C13/C14\'s composition, not restated here; legacy bytecode only',
     design_ref='5 (C11)')

prop(id='C33',
     title='Optimism fees: conservation for non-deposits, deposits mint exactly their mint',
     coq=['Props/C33.v', 'Corr/C33.v'],
     props_files=['Props/C33.v'],
     drivers=[{'name': 'c33', 'module': 'C33', 'profiles': DBG_ONLY, 'features': ['optimism'], 'variant': 'op'}],
     technique='Coq proof over a function-by-function model of the Optimism handler pipeline (Model/OpFees.v: validation, deduct_caller, '
               'last_frame_return, refund, EIP-7623 floor, reimburse_caller, reward_beneficiary, output, end, operator_fee_charge/refund) '
               '+ vm_compute correspondence with real Evm transactions (optimism feature) over a CacheDB holding the L1Block contract',
     level_text='Machine-checked theorems (Coq 8.16.1), universal over all 256-bit prices / base fees / values / L1 costs / operator scalars and '
                'constants, all u64 gas limits, every frame result (class, gas left <= limit, refund) and all balances whose sum fits 256 bits: '
                'a validated non-deposit transaction executes without panic and sender debit = value moved + beneficiary + base-fee vault + '
                'L1-fee vault + operator-fee vault credits exactly, each credit given by its unbounded formula; the operator refund rounding '
                'charge(limit) - refund = charge(used) holds even under saturation; before ISTHMUS the operator terms are 0; a wrapping '
                'basefee+priority is always rejected. Deposits (gas price 0) that pass pre-verification create exactly mint, credit no vault, '
                'bump the nonce, and from Regolith a halt becomes FailedDeposit with mint and nonce+1 persisted; Bedrock gas-used rules. '
                'The model is tied to the code by running real transactions for BEDROCK..ISTHMUS and evaluating model + an independent '
                'big-integer oracle of the property on the observed balance deltas inside Coq.',
     level_note='Trusted: Coq kernel + vm_compute; Rust harness; the model-code tie is differential (sampled), the theorems are universal over '
                'the model. No axioms.',
     modelled=['in the fee pipeline the L1 cost is an abstract value l1 = L1BlockInfo::calculate_tx_l1_cost(enveloped_tx, spec); a second model '
               '(Model/L1Cost.v) covers try_fetch slot decoding and the bedrock/ecotone/fjord arithmetic and is compared with the implementation on every '
               'case, but the FastLZ length estimate (fast_lz.rs) is not modelled: tx_estimated_size_fjord is read off the implementation with a probe '
               'L1BlockInfo; by reading, validation, deduct_caller and reward_beneficiary pass the same '
               'enveloped_tx and SPEC_ID to the same per-transaction L1BlockInfo whose tx_l1_cost cache is filled by the first call, so debit and '
               'vault credit receive one value; the harness obtains l1 by calling try_fetch + calculate_tx_l1_cost itself and the oracle checks '
               'that the L1 vault received exactly that value',
               'intrinsic gas / EIP-7623 floor (gas::calculate_initial_tx_gas) and the top-level frame result (class, gas remaining, refund) are '
               'inputs of the model, recorded from the running Evm by a handler register wrapped around last_frame_return',
               'ruint U256 operators + * += wrap, saturating_/checked_ as written in the code; u64 Gas arithmetic with its debug-panic points'],
     partial='No blob transactions and no EIP-7702 authorization lists are generated (data fee and 7702 refund are 0 in the model); '
             'cfg options behind cargo features (optional_balance_check, optional_no_base_fee, optional_gas_refund) are off; sender, recipient, '
             'beneficiary and the three vaults are six distinct accounts; programs do not move ether themselves (no SELFDESTRUCT / value calls); '
             'deposits with gas_limit below intrinsic gas are the recorded finding F-C33-1 (hypothesis preverify = 0 in C33_deposit_mints, '
             'C33_deposit_below_intrinsic_gas_refuted).',
     known_classes={10: 'C33-deposit-rejected-before-execution', 11: 'C33-bedrock-deposit-create-out-of-funds-nonce'},
     assumptions=['typed Optimism transactions: tx.optimism.mint is Some only on deposits (deduct_caller credits mint whenever it is Some, '
                  'so an untyped non-deposit Env with a mint would create ether); such cases are generated, compared with the model, and '
                  'excluded from the oracle',
                  'deposit transactions carry gas_price 0 (they have no fee fields); a deposit Env with gas_price > 0 pays price*gas_used '
                  'that nobody receives; such cases are generated, compared with the model, and excluded from the oracle',
                  'the ether held by the six observed accounts plus the mint fits 256 bits, basefee + priority fee fits 256 bits'],
     verdicts={1: 'the Optimism fee pipeline model (or the L1-cost / try_fetch model) and the real Evm disagree on this transaction (outcome / gas used / a balance / nonce / l1 cost / operator scalars); '
                  'the conservation oracle does not reject the observed balances',
               2: 'observed balances contradict C33 on this transaction: the sender debit is not value + beneficiary + base-fee vault + '
                  'L1-fee vault + operator-fee vault credits (or a credit differs from its formula), or a deposit did not mint exactly its mint / '
                  'did not persist mint and nonce+1'},
     design_ref='5 (C33), 7 (F11, F-C33-1, F-C33-2)')

prop(id='C22',
     title='beneficiary reward switch',
     coq=['Props/C22.v', 'Corr/C22.v'],
     props_files=['Props/C22.v'],
     drivers=[{'name': 'c22', 'module': 'C22', 'profiles': DBG_ONLY},
              {'name': 'c22op', 'module': 'C22', 'profiles': DBG_ONLY, 'features': ['optimism'], 'variant': 'op'},
              {'name': 'c22obr', 'module': 'C22', 'profiles': DBG_ONLY, 'features': ['optional_beneficiary_reward'], 'variant': 'obr'}],
     technique='Coq proof: invariant by induction over handler reconfiguration sequences (Model/Handler.v) + factorisation of the '
               'post-execution settlement through the reward step + vm_compute correspondence with real Evm instances (mainnet and optimism builds)',
     level_text='Machine-checked theorems (Coq 8.16.1) over all handler states and all sequences of reconfigurations (modify_spec_id / '
                'with_spec_id, append/pop handler registers, create_handle_generic, modify().build(), with_handler) that contain no documented '
                'reset: the reward handle is present after the sequence iff it was present in the handler the user installed; documented '
                'resets (listed) turn it on; settlement with the handle absent equals settlement with it present except for the credit to the '
                'beneficiary (and the three Optimism vaults). The model (one Gallina function per Handler/EvmBuilder method, registers described by '
                'their effect on the reward handle) is tied to the code by running the same reconfiguration sequences and a fee-paying transaction '
                'on real Evms with rewards on and off and evaluating model + property oracle inside Coq on what was observed.',
     level_note='Trusted: Coq kernel + vm_compute; Rust harness; the model-code tie is differential (sampled), the theorems are universal over the model. '
                'No axioms (closed under the global context).',
     modelled=['a handle register is an opaque Rust closure: modelled by its effect on the reward handle (keeps / assigns)',
               'database without errors (load_account cannot fail); U256 `*` and `+=` taken as wrapping',
               'Optimism L1 cost and operator fee amounts are inputs of the reward step (their formulas belong to C33)',
               'builder methods optimism() / mainnet() / reset_handler_with_mainnet() and the SetGenericStage methods are modelled by reading (same Handler::new path as the reset methods that are exercised)'],
     partial='popping a register that itself assigned the reward handle keeps that assignment (stated as an Example); '
             'a handler installed with with_handler() before with_db()/with_external_context() in the first builder stage is replaced by the default one (listed with the resets)',
     design_ref='5 (C22)')

prop(id='C31',
     title='instance reuse',
     coq=['Props/C31.v', 'Corr/C31.v'],
     props_files=['Props/C31.v'],
     drivers=[{'name': 'c31', 'module': 'C31', 'profiles': DBG_ONLY}],
     technique='Coq proof: every entry point ends in a clean instance on every path; clean = fresh up to fields that are overwritten before '
               'they are read; induction over call sequences (Model/Instance.v) + differential run of one reused Evm against a fresh Evm per call',
     level_text='Machine-checked theorems (Coq 8.16.1), universally quantified over the opaque types, over validation, access-list loading, '
                'precompile sets, the end handle, commit, and over the whole frame execution (an arbitrary function that may leave journaled state, '
                'database and error slot in any condition): JournaledState::clear gives the fresh state of the spec; finalize returns state+logs and '
                'resets; after transact / transact_commit / preverify_transaction / transact_preverified on every path (validation, database, '
                'execution error, revert, halt, success) the instance holds no state, transient storage, logs, journal, depth, warm addresses, '
                'error or L1 info; such an instance and a fresh one give the same outcome for every call; hence for all sequences of calls and '
                'spec changes reuse = fresh (outcomes and final database). The model is tied to the code by running sequences on one real Evm '
                'next to a fresh Evm per call, comparing outcome and database per step and inspecting the public fields between transactions.',
     level_note='Trusted: Coq kernel + vm_compute; Rust harness (computes digests of outcome/state/database for the reuse-vs-fresh comparison); '
                'the model-code tie is differential (sampled), the theorems are universal over the model. No axioms.',
     modelled=['the frame (deduct_caller ... reward) is a Section variable: the theorems hold for every such function of (spec, env, gas, journaled state, database, precompiles, L1 info)',
               'validation reads the journaled state map and warm set but not the journaled spec; the frame reads the journaled spec only after load_accounts set it, '
               'the precompile set only after set_precompiles replaced it (read off the code, recorded as the structure of the model)',
               'Optimism l1_block_info handling (fetch when None, cleared by optimism::clear) is modelled by reading; the driver runs the mainnet build',
               'user handle registers that replace clear/end/load_accounts, stateful custom precompiles and the external context are outside the model'],
     partial='panics inside a call (e.g. the internal-flag panic of output) are not modelled: the clear handle does not run then',
     design_ref='5 (C31)')

prop(id='C02',
     title='transaction validation; a rejected transaction changes nothing',
     coq=['Props/C02.v', 'Corr/C02.v'],
     props_files=['Props/C02.v'],
     drivers=[{'name': 'c02', 'module': 'C02', 'profiles': DBG}],
     technique='Coq proof: model of validate_block_env/validate_tx/validate_initial_tx_gas/validate_tx_against_state (Model/Envelope.v) proved '
               'equivalent to an independent rule set over typed transactions (Spec/ValidSpec.v); rejection path of Evm::transact over an opaque '
               'database; vm_compute correspondence with the real Evm::transact on CacheDB',
     level_text='Machine-checked theorems (Coq 8.16.1): for every SpecId value, chain configuration, block, typed transaction '
                '(legacy/2930/1559/4844/7702, every field value in its machine range) and sender account the validation pipeline of Evm::transact '
                'accepts iff Spec.valid holds (chain id, gas limit vs block / intrinsic / EIP-7623 floor, EIP-1559 fee rules, balance >= max cost '
                'over unbounded integers, EIP-3607/7702 sender code, nonce equality and EIP-2681, EIP-3860, EIP-4844 and EIP-7702 rules, access '
                'lists from BERLIN); it never reaches the expect() of validate_tx; on rejection transact leaves journaled state and error slot '
                'as they were and has issued only the two read calls for the caller on the database. The model is tied to the code by running the '
                'real Evm (CacheDB) on generated typed and raw environments over all mainnet SpecIds and on histories interleaving rejected and '
                'accepted transactions on one instance against fresh instances, and evaluating model + Spec.valid inside Coq on the same cases.',
     level_note='Trusted: Coq kernel + vm_compute; Rust harness (typed tx -> TxEnv mapping is duplicated in Rust and Coq); the model-code tie is '
                'differential (sampled), the theorems are universal over the model. No axioms.',
     modelled=['TxEnv data abstraction: calldata as byte list, access list as key counts, blob hashes as version bytes, authorization list as its length',
               'u64 additions of calculate_initial_tx_gas written in Z (cannot overflow for calldata below 2^54 bytes)',
               'the Evm instance as journaled state + error slot + opaque database with the calls made on it; execution of accepted transactions is not modelled here',
               'signature-level rules (EIP-155 v values, EIP-2 low s, authorization tuple signatures) are outside TxEnv'],
     partial='EIP-1559 transactions before LONDON are outside the domain (DESIGN note 6.4: TxEnv is untyped and validate_tx has no rule for a priority fee before LONDON); '
             'an EIP-2930 transaction with an empty access list before BERLIN is indistinguishable from a legacy one in TxEnv and is judged by its content; '
             'the optional_* cargo features (disable_balance_check etc.) are modelled but the theorems assume them off, as in the harness build; '
             'which error variant is returned is checked by the correspondence (exact variant and payload), not stated as a theorem',
     assumptions=['cargo features optional_balance_check / optional_block_gas_limit / optional_eip3607 / optional_no_base_fee off',
                  'database reads (basic, code_by_hash) may fill caches but are not writes'],
     design_ref='5 (C02), 6.4')

prop(id='C09',
     title='gas used, refund and fees',
     coq=['Props/C09.v', 'Corr/C09.v', 'Proofs/EvmGasProofs.v'],
     props_files=['Props/C09.v'],
     drivers=[{'name': 'c09', 'module': 'C09', 'profiles': DBG}],
     technique='Coq proof: closed form of the settlement pipeline (Model/Settlement.v over the C13 gas meter and the C02 environment) under the '
               'validated bounds; vm_compute correspondence with real Evm::transact executions whose frame result / EIP-7702 refund / final meter '
               'are recorded by wrapping the public handler functions; composition with the reference interpreter of C01 and the meter of C13 '
               '(Proofs/EvmGasProofs.v, theorems C09_interpreter_*): the C13 invariant is proved along every instruction and frame of the interpreter, the '
               'frame result that run_tx hands to last_frame_return is shown to satisfy the frame fields of `validated`, and the gas clauses are re-derived for the '
               'numbers run_tx reports with no hypothesis about the frame result',
     level_text='Machine-checked theorems (Coq 8.16.1) for every SpecId value, environment, frame result (ok/revert/halt, remaining <= limit - intrinsic, '
                'refund >= 0), EIP-7702 refund, prices and balances that passed validation: the settlement (deduct_caller_inner, last_frame_return, '
                'refund, EIP-7623 floor step, reimburse_caller, reward_beneficiary, output) reaches no overflow point and equals a closed form from which '
                'follow intrinsic <= spent <= limit, gas_used <= limit, floor <= gas_used, refund <= spent/q (q = 5 from LONDON, 2 before), gas_used >= spent - spent/q, '
                'no frame refund on revert/halt, halt => gas_used = limit (EIP-7702 refund aside), sender balance change = -(effective price * gas_used + blob fee), '
                'beneficiary credit = (price - basefee) * gas_used from LONDON and price * gas_used before, all without wrap under the validated balance bound. '
                'The model is tied to the code by real executions over all mainnet SpecIds (refund-earning, reverting, halting, floor-hitting, blob and 7702 transactions) '
                'with model and an independent big-integer oracle (the execution-specs formulas) evaluated inside Coq on the observed numbers.',
     level_note='Trusted: Coq kernel + vm_compute; Rust harness incl. the recording wrappers around last_frame_return / refund / reimburse_caller; the model-code tie is '
                'differential (sampled), the theorems are universal over the model. No axioms.',
     modelled=['in the settlement theorems the execution of the first frame is a parameter (class, remaining, refund); the C09_interpreter_* theorems instantiate it with the '
               'reference interpreter (Model/Step.v, Model/Evm.v), whose tie to the code is the C01 correspondence, not re-checked by this property\'s driver',
               'value transfers and other balance movements of the execution are a parameter d; caller and beneficiary are distinct accounts',
               'u64 `+`/`-` of reimburse_caller / reward_beneficiary / output return None on overflow (debug panic); shown unreachable under the validated bounds'],
     partial='of the bounds collected in `validated`, the gas / price / balance ones are proved to follow from the C02 validation pipeline for typed transactions '
             '(C09_validation_establishes_bounds; value transfer of the execution is the parameter d). The frame-result bounds are composed with the reference interpreter '
             '(Model/Evm.v run_tx, tied to the code by the C01 correspondence): 0 <= remaining <= limit - intrinsic, the EIP-7702 refund >= 0 and the i64 range of the refund '
             'counter are theorems about run_tx (C09_interpreter_frame_result_bounds, via the C13 invariant along the interpreter), and the gas clauses (intrinsic <= spent <= limit, '
             'floor <= gas_used <= limit, 0 <= refund <= spent/q, gas_used >= spent - spent/q, no frame refund on revert/halt, halt => whole limit apart from the EIP-7702 refund) '
             'hold for the gas_used / gas_refunded that run_tx reports with NO hypothesis about the frame (C09_interpreter_gas_bounds, _refund_on_revert_or_halt, '
             '_halt_uses_whole_limit; they state the halt / revert clauses on the class last_frame_return uses: ExecutionResult::Halt with reason CallTooDeep / OutOfFunds is a '
             'return_revert! result whose gas is handed back, unreachable for the first frame of a validated transaction). One frame field is NOT derived: refund >= 0 for a first frame that ends ok '
             '(`top_refund_nonneg`); it is the only extra hypothesis of C09_interpreter_establishes_validated (which identifies run_tx\'s numbers with the closed form) and is not a '
             'consequence of frame accounting: C09_interpreter_frame_refund_nonneg_refuted exhibits an inner frame that ends ok with refund -2000; proving it for the first frame '
             'needs a potential argument over the SSTORE refund schedule and the journal across reverts. The exact-payment clauses are not composed with run_tx: the balance movement d of the '
             'execution (field v_delta) stays a parameter and the journaled-state side of reimburse_caller / reward_beneficiary in run_tx is not related to Settlement.settle here. '
             'Beneficiary = caller and beneficiary balances within the fee of 2^256 (saturating credit, no specified behaviour) are outside the exact-payment clause',
     assumptions=['interpretation (proposed DESIGN note 6.6, agreed): for EIP-7702 transactions the authorization refund is kept on revert and halt, in the execution-specs as in the code; '
                  '"refund is zero on revert or halt" and "a halted transaction uses its whole gas limit" are stated apart from that refund; '
                  'witness: Props/C09.v C09_literal_halt_uses_limit_refuted_for_7702 and a real run (PRAGUE, out-of-gas, gas_limit 86862, gas_used 74362)',
                  'interpretation (DESIGN note 6.2): "intrinsic gas <= gas used" is stated on gas spent before the refund; witness C09_literal_intrinsic_le_gas_used_refuted',
                  'mainnet handler with the beneficiary reward enabled; optional_gas_refund feature off'],
     design_ref='5 (C09), 6.2')

prop(id='C03',
     title='256-bit arithmetic, comparison, bitwise and shift opcodes',
     coq=['Props/C03.v', 'Corr/C03.v'],
     props_files=['Props/C03.v'],
     drivers=[{'name': 'c03', 'module': 'C03', 'profiles': DBG}],
     gen=True,
     technique='Coq proof: model of arithmetic.rs/i256.rs/bitwise.rs/exp_cost (Model/Arith.v) proved equal to unbounded-integer '
               'specifications (Spec/ArithSpec.v) for all 256-bit operands + vm_compute correspondence with the real interpreter '
               'executing each opcode through make_instruction_table',
     level_text='Machine-checked theorems (Coq 8.16.1), one per opcode, for all operands in [0,2^256): the model of the Rust algorithm '
                '(sign/complement/fix-up of i256_div/i256_mod, mask formula of SIGNEXTEND, saturated index of BYTE, saturated shift and '
                '>=256 branches of SHL/SHR/SAR, square-and-multiply loop of EXP, zero guards) equals the unbounded-integer definition '
                'reduced mod 2^256; exp_cost = 10 + g*bytes(e) (g = 50 from SPURIOUS_DRAGON, else 10) and is never None; static prices '
                '= Yellow-Paper tiers, also as an exhaustive reflected table (21 SpecIds x 25 opcodes, Gen/ArithGas.v) of availability and gas; each instruction body pops exactly its inputs and pushes one word, failures run nothing. The model '
                'is tied to the code by executing every opcode on a real Interpreter via the per-spec instruction table and evaluating '
                'model + independent specification oracle inside Coq on the same cases.',
     level_note='Trusted: Coq kernel + vm_compute; Rust harness; the model-code tie is differential (sampled), the theorems are universal '
                'over the model. No axioms (closed under the global context).',
     modelled=['ruint primitives (wrapping_add/sub/mul/neg, /, %, mul_mod, <<, >>, bit, byte, &, |, ^, !, leading_zeros, '
               'checked_add/mul) are written by their documented meaning on Z with explicit mod 2^256; wrapping_pow and add_mod are mirrored as their algorithms',
               'SpecId ordinals are those of the non-optimism build (FRONTIER = 0 .. OSAKA = 19, LATEST = 255); EOF mode is not exercised',
               'usize is 64 bits (as_usize_saturated never saturates below u64::MAX)'],
     design_ref='5 (C03)')

prop(id='C15',
     title='State database reads reflect exactly the committed history',
     coq=['Props/C15.v', 'Corr/C15.v'],
     props_files=['Props/C15.v'],
     drivers=[{'name': 'c15', 'module': 'C15', 'profiles': DBG_ONLY}],
     gen=True,
     exhaustive=False,
     known_classes={10: 'C15-F15-empty-account-with-db-storage', 11: 'C15-F17-pre161-touch-drops-storage',
                    12: 'C15-F18-code-by-hash-misses-new-code'},
     technique='Coq proof: per-account refinement invariant (8 statuses x output kinds) by induction over arbitrary histories of commits/increments/drains/reads '
               '(Model/StateDb.v vs Spec/PlainStateSpec.v) + exhaustive reflection of the AccountStatus machine from the compiled code (Gen/StatusTables.v = Spec) '
               '+ vm_compute correspondence with the real State on synthetic and real-Evm histories, EvmOutOK evaluated as a monitor on every real EVM output, '
               'three-way read-back State / CacheDB / plain map and pairwise execution results',
     level_text='Machine-checked theorems (Coq 8.16.1): for every database account and every history of EVM outputs satisfying EvmOutOK (with either state-clear setting per commit), '
                'balance increments, drains and reads, the cached account of State answers basic (balance, nonce, code hash) and every storage slot exactly like the plain reference '
                'account; touched empty accounts are absent once state clearing is on; no unreachable! status cell is evaluated; the reflected 8x19 status table equals the '
                'hand-written one (exhaustive). The model is tied to the code by executing the real State (per-step cache snapshots, transitions, answers) and the real Evm on '
                'State<CacheDB<EmptyDB>> and CacheDB<CacheDB<EmptyDB>> and evaluating model + specification oracle inside Coq.',
     level_note='Trusted: Coq kernel + vm_compute; Rust harness and reflector; model-code tie is differential (sampled) except the status machine (exhaustive). No axioms.',
     modelled=['the underlying database is a pair of finite maps that never fails (CacheDB<EmptyDB>)',
               'AccountInfo.code (inline bytecode) is carried verbatim and compared in the correspondence run; the theorems speak about balance, nonce and code hash '
               '(AccountInfo::eq) and about code_by_hash answering from the database',
               'HashMap iteration order of a commit is abstracted: addresses of one output are distinct, so order is irrelevant',
               'State vs CacheDB execution equality is established by the differential run (both refine the same reference for reads), not by a theorem about the interpreter'],
     partial='Theorems cover all reads of State (per account and whole State). Not covered by a theorem, only by the differential run: equality of execution results State vs CacheDB, '
             'the content of the inline AccountInfo.code, database errors (the modelled database is infallible), block_hash. The classes F15, F17, F18 are excluded by hypothesis.',
     assumptions=['EvmOutOK (explicit boolean, monitored on every real EVM output): slot keys distinct; code hash never the zero hash; created => original values 0 and (state clearing on => not empty); '
                  'not created => original values equal the current view, code/nonce never disappear, a non-empty account does not become empty; an account without code and nonce is left without storage',
                  'database accounts carry canonical code hashes; the classes F15/F17/F18 (known_findings.json) are excluded from the theorems and reported as KNOWN-FINDING',
                  'state clearing and fork are consistent in the differential run (flag on iff fork >= SPURIOUS_DRAGON, or flag off on a later fork)'],
     design_ref='5 (C15)')

prop(id='C19',
     title='Executing on top of a preloaded bundle equals executing on the merged state',
     coq=['Props/C19.v', 'Corr/C19.v'],
     props_files=['Props/C19.v'],
     drivers=[{'name': 'c19', 'module': 'C19', 'profiles': DBG_ONLY}],
     technique='Coq proof: the cache account built from a bundle account and the one loaded from the merged database establish the C15 refinement invariant w.r.t. the same '
               'reference account (Model/Preload.v, Proofs/PreloadProofs.v), hence agree on every read after any further history; + vm_compute correspondence on bundles '
               'produced by real Evm histories: State(D, with_bundle_prestate(B)) vs State(D (+) to_plain_state(B, No)) with recorded database calls, read-backs, execution '
               'results and end states',
     level_text='Machine-checked theorems (Coq 8.16.1): for every database account and well-formed bundle account, From<BundleAccount> for CacheAccount over D and load_cache_account over '
                'D (+) changeset(B) satisfy the C15 invariant w.r.t. the same reference; consequently basic/storage agree immediately and after any history of commits, increments, '
                'drains and reads satisfying EvmOutOK (both runs defined); the merged database answers per address what the changeset says; the two freshly built States agree on '
                'basic, storage and code_by_hash for every address, slot and hash. The model is tied to the code by running both real States on the same real-Evm histories and '
                'evaluating the model of each side plus the pairwise-agreement oracle inside Coq.',
     level_note='Trusted: Coq kernel + vm_compute; Rust harness; the model-code tie is differential (sampled). No axioms.',
     modelled=['the database never fails; BundleState::to_plain_state(OriginalValuesKnown::No) is modelled as the obvious database update and compared with the hand-applied real changeset per case',
               'equality of execution results and of the resulting bundle changes (compared as end states D (+) final bundle) is established by the differential run; the theorems cover all reads'],
     partial='Theorems cover every read (basic/storage/code_by_hash) immediately and, per account, after any further history. Equality of execution results and of resulting '
             'bundle changes is checked by the differential run (the latter as equality of the end states; the bundle algebra itself is C16-C18).',
     assumptions=['bundle well-formedness (monitored on every real bundle): info absent iff status LoadedNotExisting/Destroyed/DestroyedAgain; Loaded => not empty, Changed => code or nonce, '
                  'LoadedEmptyEIP161 => empty; storage the status claims fully known is wiped or nothing else is in the database; no storage under an account without code and nonce '
                  '(the C15 F15/F17 class, excluded from the generator)',
                  'EvmOutOK of C15 for the further history'],
     design_ref='5 (C19)')

prop(id='C23',
     title='precompiles: EIP output and gas',
     coq=['Props/C23.v', 'Corr/C23.v'],
     props_files=['Props/C23.v'],
     drivers=[{'name': 'c23', 'module': 'C23', 'profiles': DBG_ONLY}],
     gen=True,
     technique='Coq: the EIP text of every precompile as executable Gallina (Model/Precompile.v, Modexp.v, Sha256.v, Ripemd160.v, Blake2.v, '
               'Curves.v, Base/KeccakP.v) + theorems on gas formulas / out-of-gas / padding / modexp / call_precompile + reflected EIP-2537 '
               'price tables + vm_compute correspondence with the real precompile functions and a real Evm CALL',
     level_text='Machine-checked theorems (Coq 8.16.1): word-priced costs equal base + per_word*ceil(len/32) and cannot wrap below 2^56 bytes; '
                'identity/SHA-256/RIPEMD-160/ecrecover/BLAKE2F/BN254/KZG/BLS-add report OutOfGas iff cost > limit; modexp value = b^e mod m '
                '(0 for modulus 0); modexp iteration count = min(2^64-1, EIP count) and Byzantium/Berlin gas = EIP-198/EIP-2565 gas for all '
                'u64 lengths whenever nothing saturates, and the out-of-gas decision equals the EIP decision for ALL lengths and every limit '
                'below 2^64/20; BN254 prices per fork; EIP-2537 discount tables (reflected from the code) = the EIP tables, MSM price formula '
                'for all k, executed prices for k = 1..140; call_precompile: error => all passed gas consumed and no output, success => gas_used charged. '
                'The model is tied to the code by executing every precompile of every PrecompileSpecId on generated inputs and limits and '
                'evaluating model + specification oracle inside Coq on the same cases.',
     level_note='Trusted: Coq kernel + vm_compute; Rust harness; the model-code tie is differential (sampled). No axioms.',
     modelled=['SHA-256, RIPEMD-160, Keccak-256, BLAKE2b F, secp256k1 / BN254 G1 arithmetic (Jacobian coordinates, special/Barrett reduction, binary '
               'inversion) and modexp are executable specifications written by hand: validated on standard vectors (Example) and against the '
               'implementation on every generated case, not verified against another formalisation',
               'BN254 pairing value and G2 subgroup membership, KZG proof verification (c-kzg), BLS12-381 additions, MSMs, pairing, maps and '
               'subgroup checks are OPAQUE: the case carries the implementation\'s result as oracle; checked are gas, input length, padding, '
               'canonical field elements, G1 curve membership, output shape, and the results forced by infinity points',
               'ecrecover/sha256/... values enter the specification oracle through the same Gallina functions as the model'],
     partial='Cryptographic cores of BN254 pairing, KZG and BLS12-381 are opaque (gas/format/failure rules only); hash and curve code are executable '
             'specifications. modexp: a header length >= 2^64 is refused by the code with an error where the EIPs define a (>= 9.2e17 gas) cost, '
             'and for limits >= 2^64/20 the saturating u64 arithmetic makes the code accept where the EIP cost exceeds the limit '
             '(C23_modexp_out_of_gas_unbounded_limit_refuted); both need gas limits that no chain can supply and are outside the theorems\' bound. '
             'The shipped EIP-2537 state-test vectors are exercised by C01 (revme), not here.',
     assumptions=['input lengths below 2^56 bytes (calc_linear_cost_u32 in u64)', 'modexp: gas limit below 2^64/20 = 9.2e17'],
     design_ref='5 (C23)')

prop(id='C24',
     title='alternative cryptographic backends agree',
     coq=['Props/C24.v', 'Corr/C24.v'],
     props_files=['Props/C24.v'],
     # the harness is built twice; the k256 + kzg-rs binary runs first and leaves its results in a side file
     drivers=[{'name': 'c24rs', 'module': 'C24', 'profiles': DBG_ONLY, 'variant': 'rs', 'no_default': True, 'features': ['rsbackends']},
              {'name': 'c24', 'module': 'C24', 'profiles': DBG_ONLY}],
     technique='differential execution of the two cfg-selected backend sets (harness built with secp256k1 + c-kzg and with k256 + kzg-rs) on the '
               'same generated inputs, both results evaluated inside Coq against each other, the Gallina ecrecover and the official KZG vectors; '
               'Coq theorem for the algebraic core of the k256 path',
     level_text='Machine-checked theorem (Coq 8.16.1): in every abelian group with n.R = 0, (n-s).(-R) = s.R, hence r^-1.((n-s).(-R) - z.G) = '
                'r^-1.(s.R - z.G): normalising s and flipping the recovery id (what the k256 path does) recovers the same key; flipping the '
                'recovery id selects the other square root = the negated point. The agreement of the compiled backends is established by running '
                'both builds on generated 128-byte ecrecover inputs and 192-byte point-evaluation inputs (incl. the 122 official verify_kzg_proof '
                'vectors) and comparing results inside Coq, together with the Gallina ecrecover of C23.',
     level_note='Trusted: Coq kernel + vm_compute; Rust harness (two builds); agreement of the backends is differential (sampled), the theorem is universal. No axioms.',
     modelled=['the group of secp256k1 points is represented by the abstract group laws (hypotheses of the theorem); that the curve satisfies them is not proved',
               'KZG proof verification is opaque in the model: both backends are compared with each other and with the official vectors; only the pre-checks '
               '(gas, length, versioned hash, canonical z / y) are modelled',
               'the Gallina ecrecover is the executable specification of C23'],
     partial='Agreement of the two compiled backends is checked on generated inputs, not proved (their source is C / third-party Rust outside /repo). '
             'KZG verification opaque.',
     design_ref='5 (C24)')

prop(id='C28',
     title='attaching an observing inspector does not change execution',
     coq=['Props/C28.v', 'Corr/C28.v'],
     props_files=['Props/C28.v'],
     drivers=[{'name': 'c28', 'module': 'C28', 'profiles': DBG_ONLY}],
     gen=True,
     technique='Coq proof: inspector_instruction / LOG / SELFDESTRUCT wrappers and the interpreter loop over an abstract machine with observing callbacks '
               '(Model/InspectorTransparent.v) equal the unwrapped loop; GasInspector outcome rewriting shown unobservable through insert_*_outcome and '
               'last_frame_return using the reflected InstructionResult classification (Gen/ResultClass.v = Spec/ResultClassSpec.v); differential runs of '
               'real transactions bare vs NoOpInspector / GasInspector / TracerEip3155',
     level_text='Machine-checked theorems (Coq 8.16.1): for all machine states, instructions, tables and step counts the registered instruction table with '
                'callbacks that leave interpreter and context unchanged computes what the plain table computes; for every InstructionResult discriminant and '
                'all gas values GasInspector\'s spend_all on error outcomes changes neither the calling frame\'s gas nor last_frame_return\'s result; the '
                'classification table read from the compiled code equals the specified one (exhaustive, 40 variants). Tied to the code by (a) table cells, '
                '(b) the real insert_call_outcome / insert_create_outcome / last_frame_return run with and without the real GasInspector for every variant, '
                '(c) differential execution of generated transactions: ExecutionResult and full EvmState must be identical.',
     level_note='Trusted: Coq kernel + vm_compute; Rust harness (reflector ~40 lines with a wildcard-free match, canonical rendering of results). '
                'That NoOpInspector / GasInspector / TracerEip3155 callbacks are "observing" in the sense of the model (they do not write through their &mut '
                'Interpreter / &mut EvmContext arguments) is established by the differential runs, not by proof. No axioms.',
     modelled=['interpreter + context state is abstract (ip, instruction_result, rest); callbacks are arbitrary functions constrained by the predicate `observing`',
               'only the gas component of insert_*_outcome / last_frame_return is modelled; stack/memory/return-data effects depend on result and output, which no observing inspector changes'],
     partial=['no theorem about the Rust bodies of the three inspectors themselves (sampled differentially)',
              'EOF create frames are only lightly exercised in the differential runs (EOF create transactions, one nested EOFCREATE); GasInspector does not override eofcreate_end'],
     design_ref='5 (C28)')

prop(id='C29',
     title='inspector hooks are balanced and correctly nested',
     coq=['Props/C29.v', 'Corr/C29.v'],
     props_files=['Props/C29.v'],
     drivers=[{'name': 'c29', 'module': 'C29', 'profiles': DBG_ONLY}],
     technique='Coq proof: model of inspector_handle_register + run_the_loop over abstract frame trees (Model/Inspector.v) emits, for every tree, '
               'a word of the bracket grammar with the input stacks restored; stack monitor proved equivalent to the grammar (Spec/InspectorSpec.v) '
               'and evaluated by vm_compute on callback traces recorded from real transactions',
     level_text='Machine-checked theorems (Coq 8.16.1) over all frame trees (frames, calls resolved by the inspector, calls rejected before a frame '
                'exists, all three kinds) and all initial contents of the three input stacks: no pop().unwrap() panic, stacks restored, the emitted '
                'hooks are exactly open(k,i) [init items] close(k,i) with the closer carrying the popped = opening inputs, one step/step_end per '
                'instruction, one log per journaled log, one initialize_interp per frame; monitor `balanced` accepts exactly that grammar. '
                'The tie to the code is a verified monitor run on recorded traces (DESIGN 2.3) plus re-running the model on the tree parsed from each trace.',
     level_note='Trusted: Coq kernel + vm_compute; Rust harness and its recording Inspector; ids of inputs are 63-bit hashes of their Debug rendering. '
                'The theorems are universal over the model; the model-code tie is sampled. No axioms.',
     modelled=['what instructions compute is abstracted into the frame tree (which instruction ends with which action / result)',
               'Result::Err paths (database errors, fatal precompile errors) abort the transaction and are not modelled: they leave entries on the input stacks',
               'an inspector whose step hook changes instruction_result (then step_end is skipped by design) is outside the model'],
     partial=['EOF is exercised only lightly by the harness: EOF create transactions (valid / malformed init containers) and one nested EOFCREATE per run; '
              'EXTCALL / EXTDELEGATECALL / EXTSTATICCALL are not generated (the model and theorems do not distinguish them from CALL)'],
     design_ref='5 (C29)')

prop(id='C30',
     title='self-destruct notification names the destroyed contract and its beneficiary',
     coq=['Props/C30.v', 'Corr/C30.v'],
     props_files=['Props/C30.v'],
     drivers=[{'name': 'c30', 'module': 'C30', 'profiles': DBG_ONLY}],
     technique='Coq proof over a model of the SELFDESTRUCT wrapper + instruction + journal balance effects (Model/SelfDestructNotify.v); '
               'specification walk evaluated by vm_compute on the SELFDESTRUCT steps and notifications recorded from real transactions',
     level_text='Machine-checked theorems (Coq 8.16.1) for every interpreter/account state of the model: a notification is emitted iff the '
                'instruction result is SelfDestruct (not for static-call failure, stack underflow, out-of-gas after the host call), and it carries '
                '(executing contract, low 160 bits of the popped word, balance that left = whole balance unless beneficiary = contract and the account '
                'is not destroyed). Tied to the code by recording every executed SELFDESTRUCT step (operands, balances, result) and every '
                'Inspector::selfdestruct call of generated transactions and checking the stream against the specification function inside Coq.',
     level_note='Trusted: Coq kernel + vm_compute; Rust harness and its recording Inspector ("created in this transaction" is the recorder\'s own bookkeeping of create frames). '
                'The theorems are universal over the model; the model-code tie is sampled. No axioms.',
     modelled=['gas of SELFDESTRUCT is abstracted to "the charge after the host call succeeds or not"',
               'overflow of the beneficiary balance (F13) is outside: the model returns None there'],
     design_ref='5 (C30), 7 (F8)')

prop(id='C07',
     title='call depth',
     coq=['Proofs/EvmFrameProofs.v', 'Proofs/EvmGasProofs.v', 'Proofs/EvmMiscProofs.v', 'Props/C07.v', 'Corr/C07.v'],
     props_files=['Props/C07.v'],
     drivers=[{'name': 'c07', 'module': 'C07', 'profiles': DBG_ONLY}],
     allow_axioms=['functional_extensionality_dep'],
     technique='Coq proof: frame functions are journal histories, depth = open frames by the history invariant of C06, for all event sequences (Model/Frames.v) + vm_compute correspondence with revm::EvmContext driven directly; '
               'composition (Proofs/EvmFrameProofs.v, Proofs/EvmMiscProofs.v): on the reference interpreter of C01 (Model/Evm.v: do_call / do_create / exec call the frame functions of Model/Frames.v) - induction on fuel over exec '
               'for "a frame restores depth and open checkpoints", induction over an independent description (reach) of the states a run executes from for the bound, direct computation of the depth check',
     level_text='Machine-checked theorems over ALL sequences of frame events (calls with every early-exit path, creates with every rejection path, their returns with every outcome, arbitrary host '
                'operations in between) from a transaction-start state: journal depth = number of open frames; a call/create that yields no frame leaves the depth unchanged, one that yields a frame adds one, '
                'every return removes one; the depth check fires iff depth > 1024. Tied to the code by driving the real EvmContext::make_call_frame / call_return / make_create_frame / create_return '
                'on generated event sequences (including 1030-deep nestings after random sibling calls) and comparing result kinds, depth after every event and the final journaled state inside Coq. '
                'On the reference interpreter (run_the_loop as recursion over frames; tied to the Rust code by the C01 correspondence), for every world, program, fuel and state: the transaction starts at depth 0 = no open frame and the first frame is still started there after load_access_list / deduct_caller / EIP-7702 authorisations (C07_interpreter_first_frame_starts_at_depth_0); '
                'during a run - in the frame and in every frame nested below it - the journal depth stays the number of open frame checkpoints, is never below the depth of the running frame and never exceeds 1024 + 1 '
                '(C07_interpreter_depth_bounded); a child frame is entered only from depth <= 1024 and lies exactly one level deeper (C07_interpreter_child_is_one_level_deeper); a CALL-family or CREATE request issued at depth > 1024 '
                'is answered CallTooDeep with all the gas it was given, no frame is opened, the child interpreter is not run and the whole transaction state is unchanged (C07_interpreter_call_too_deep, C07_interpreter_create_too_deep), '
                'the caller gets 0 pushed, its gas back and empty return data (C07_interpreter_caller_after_too_deep); at depth <= 1024 the depth check does not fire; every frame, every call and every create that completes - ok, revert, halt, '
                'precompile failure, value-transfer failure, collision, early rejection, with anything nested inside - returns with the depth and the stack of open checkpoints it started from '
                '(C07_interpreter_frame_restores_depth / _call_ / _create_).',
     level_note='Trusted: Coq kernel + vm_compute; functional_extensionality_dep (through the C06 development); Rust harness; differential tie. Environment facts that are not journaled state '
                '(which address is a precompile and whether it succeeds, whether code is EOF, has_storage, init-code prefix) are inputs of the model. Hypothesis: the contract of the journaled-state calls '
                '(econtract), shown satisfiable by an Example.',
     partial='make_eofcreate_frame is covered by the model of make_create_frame (same journaled-state calls after the depth check; its Tx kind and eofcreate_return are not driven by the harness); '
             'the interpreter loop that issues the events (run_the_loop) is the reference interpreter of C01 in the composition theorems (legacy bytecode only: EXTCALL/EXTDELEGATECALL/EXTSTATICCALL/EOFCREATE are covered by the event model only); '
             'the composition theorems do not need the C06 contract (they use depth arithmetic of the frame functions only) and are conditional on the run producing a result where they speak about a completed frame (XDone: out-of-fuel and '
             'model panic points are outside)',
     modelled=['see C06 (Model/Host.v); Model/Frames.v mirrors evm_context.rs / inner_evm_context.rs frame functions'],
     design_ref='5 (C07)')

_BUNDLE_COQ = ['Model/Bundle.v', 'Spec/BundleSpec.v', 'Spec/BundleHist.v', 'Spec/BundleSplit.v', 'Proofs/BundleProofs.v', 'Proofs/BundleProofsBase.v',
               'Proofs/BundleProofsAcct.v', 'Proofs/BundleProofsLift.v', 'Proofs/BundleProofsCode.v', 'Proofs/BundleProofsRev.v', 'Proofs/BundleProofsExt.v',
               'Proofs/BundleWitness.v', 'Corr/BundleCommon.v']
_BUNDLE_ASSUME = [
    'TransOK (Spec/BundleHist.v trans_ok): every transition is consistent with the plain state and the status the cache holds '
    '(previous_info/previous_status, slot previous_or_original_value = current value, legal status step, storage_was_destroyed '
    'exactly on destruction, byte code travels with the info); hypothesis of the theorems, evaluated as a monitor on every transition '
    'the implementation produced in the correspondence run',
    'plain state = account table + storage table; storage of an absent account is empty (plain_wf); the account table holds infos '
    'without byte code (plain_nocode; both are part of HistOK and of the monitor)',
    'RevertToSlot::Destroyed inside a wiped revert is read as "the database (pre-bundle) value" (reverts.rs doc comment), not as '
    'RevertToSlot::to_previous_value() = 0; with the literal reading C17 clause 1 fails (Loaded account with a database slot, destroyed '
    'and re-created writing the same slot inside one group)',
    'HashMap iteration order is irrelevant: every loop of the bundle code is per-key independent and is modelled as a gmap merge',
]

prop(id='C16',
     title='bundle changeset turns pre-state into post-state',
     coq=_BUNDLE_COQ + ['Props/C16.v', 'Corr/C16.v'],
     props_files=['Props/C16.v'],
     drivers=[{'name': 'c16', 'module': 'C16', 'profiles': DBG_ONLY}],
     technique='Coq model of TransitionAccount/TransitionState/BundleAccount/BundleState (std++ gmap) + specification side (plain state, apply_changeset) '
               '+ vm_compute correspondence on histories from real Evm execution and real CacheAccount transitions, with the TransOK monitor',
     level_text='Machine-checked (Coq 8.16.1), for ALL TransOK histories, ALL merge schedules (groupings), both BundleRetention and both '
                'OriginalValuesKnown settings (Props/C16.v C16_full = the full statement C16_statement): the model of '
                'TransitionState::add_transitions + BundleState::apply_transitions_and_create_reverts never reaches an `unreachable!`, the '
                'changeset of to_plain_state applied by the specification apply_changeset to the pre-state is observationally the post-history '
                'plain state, and every account with real code whose hash differs from its pre-state hash finds its code in the changeset '
                '(contracts_cover). Proof: TransitionAccount::update keeps the accumulated transition consistent with the plain states at the two '
                'ends of the group (mt_merge); update_and_create_revert / insertion of an unknown address preserve the per-account bundle '
                'invariant in every reachable (bundle status x merged transition status x wiped) cell (acct_step); the address loop is a per-key '
                'merge (binv_group); induction over groups. Tied to the code by the correspondence run: every generated history is replayed in the '
                'model (model = code on transitions, merged TransitionState, bundle, changesets) and the implementation changeset applied in Coq '
                'to the pre-state is compared with the harness reference state after every merge.',
     level_note='Trusted: Coq kernel + vm_compute; Rust harness incl. its reference plain map (EVM output -> database meaning); std++.',
     modelled=['HashMap as gmap (iteration order abstracted)', 'state_size/reverts_size counters not modelled', 'byte code as an opaque identifier (hash)'],
     partial='nothing of the statement is left unproved over the model; HistOK now includes plain_nocode p0 (the pre-state account table holds infos '
             'without byte code - without it the clause is false, Example C16_nocode_needed; the harness reference map never stores code); '
             'the tie model = code remains a tested correspondence (status cells outside the TransOK closure are only compared model = code)',
     assumptions=_BUNDLE_ASSUME,
     design_ref='5 (C16)')

prop(id='C17',
     title='bundle reverts record the exact previous values',
     coq=_BUNDLE_COQ + ['Props/C17.v', 'Corr/C17.v'],
     props_files=['Props/C17.v'],
     drivers=[{'name': 'c17', 'module': 'C17', 'profiles': DBG_ONLY}],
     technique='same model; plain reverts of every group applied by the specification apply_plain_revert; revert(j) for every j',
     level_text='Machine-checked: clause 1 for ALL TransOK histories and merge schedules (Props/C17.v C17_reverts_correct): the reverts recorded for '
                'group k, read through to_plain_state_reverts and applied by the specification apply_plain_revert to the state after group k, give '
                'the state before group k (per account: previous info / DeleteIt / untouched; per slot: previous value, RevertToSlot::Destroyed and '
                'unlisted slots of a wiped revert = pre-bundle value, unlisted otherwise unchanged) - proved cell by cell for all five revert shapes '
                'of update_and_create_revert (ucr_revert). Also: to_plain_state_reverts is exact per address; revert(j) pops exactly min(j,n) '
                'groups; refutation witnesses for the changeset after revert (Yes and No). Clause 2 is tested and fails only in the two '
                'known-finding classes.',
     level_note='see C16',
     modelled=['see C16'],
     partial='clause 1 is proved in full; clause 2 (changeset of revert(j) = state after n-j groups) is stated (C17_statement_revert_changeset) and refuted for OriginalValuesKnown::Yes and for ::No (two known findings), hence only tested outside those classes / compared model = code',
     known_classes={10: 'C17-revert-reinsert-loses-original', 11: 'C17-revert-keeps-zeroed-slots'},
     assumptions=_BUNDLE_ASSUME,
     design_ref='5 (C17)')

prop(id='C18',
     title='splitting and joining bundles',
     coq=_BUNDLE_COQ + ['Props/C18.v', 'Corr/C18.v'],
     props_files=['Props/C18.v'],
     drivers=[{'name': 'c18', 'module': 'C18', 'profiles': DBG_ONLY}],
     technique='same model; extend / prepend_state at every split point, take_n_reverts / take_all_reverts',
     level_text='Machine-checked: on every clean split (no account of the second part starts in a destroyed status) of every TransOK history, for all '
                'groupings of both parts and both OriginalValuesKnown settings, the changeset of extend(b1, b2) applied to the pre-state is the '
                'final state (Props/C18.v C18_extend_changeset = C18_statement_extend); take_n_reverts n returns the first n groups and leaves '
                'the rest with state and contracts untouched (all n, incl. n > len); prepend_state keeps every info, status-destroyed storage and '
                'slot of the newer bundle; refutation witnesses for extend without CleanSplit and for the per-group pre-values of the joined '
                'bundle (three known findings). The per-group reverts of the joined bundle against the recorded plain states are tested.',
     level_note='see C16',
     modelled=['see C16'],
     partial='the joined bundle\'s revert list (per-group pre-values after extend) is only tested and is refuted in two known-finding classes; contracts of the joined bundle and prepend_state\'s changeset are not covered by a theorem; extend without CleanSplit is refuted (known finding)',
     known_classes={10: 'C18-extend-inherited-destroyed-status', 11: 'C18-extend-prevalues-not-migrated', 12: 'C18-extend-destroyed-marker-kept'},
     assumptions=_BUNDLE_ASSUME,
     design_ref='5 (C18)')

prop(id='C25',
     title='interpreting any bytecode is memory-safe and terminates with a result',
     coq=['Props/C25.v', 'Corr/C25.v'],
     props_files=['Props/C25.v'],
     drivers=[{'name': 'c25', 'module': 'C25', 'profiles': DBG_ONLY, 'hooks': True},
              {'name': 'c25t', 'module': 'C25', 'profiles': DBG_ONLY}],
     gen=True,
     technique='Coq proof: invariant "every fetched pc is an instruction start, hence <= len + 32" by induction over all runs of a control-flow model of the '
               'legacy interpreter loop (Model/ControlFlow.v: fetch on the 33-byte padded buffer, successor by opcode class from the reflected '
               'OPCODE_INFO_JUMPTABLE, jump targets through the C04 analysis theorem); exhaustive vm_compute over a reflected table of every SpecId x opcode byte x 4 stack '
               'profiles executed through the instruction table (Gen/StepTable.v: gas charged, stack effect, class); frame machine (pc, Gas::record_cost, stack length) '
               'with gas strictly decreasing. Runtime part: generated legacy code and validated EOF containers executed as real transactions on an Evm built with '
               '--cfg risechain_revm_verif (instruction pointer asserted inside the bytecode buffer before every fetch) in the debug profile (overflow checks, debug '
               'assertions, assume! -> unreachable!), panics caught; an observing inspector records pcs / gas per step / steps per frame, evaluated in Coq',
     level_text='Machine-checked theorems (Coq 8.16.1) for EVERY legacy byte string (length + 33 <= 2^64) and every run of the control-flow model from pc = 0: before every opcode fetch '
                '0 <= pc <= len + 32 < len + 33 = length of the padded buffer (and pc < 2^64); a fetch at pc >= len reads 0 = STOP and no step follows; every fetched pc is an '
                'instruction start (never inside PUSH data); the n <= 32 immediate bytes of a continuing instruction lie inside the padded buffer and its opcode inside the original '
                'code; a step is sequential or lands on a JUMPDEST < len that is an instruction start (C04). Finite part, all 21 SpecIds x 256 bytes x 4 stack profiles, executed: '
                'no instruction panics; every instruction that leaves the result at Continue / CallOrCreate charged >= 1 gas (JUMPDEST = 1 is the minimum; for calls/creates net of the gas handed '
                'to the sub-frame); opcodes the model treats as terminating (STOP, RETURN, REVERT, INVALID, SELFDESTRUCT, undefined bytes, EOF opcodes with immediates) never continue in legacy code; '
                'the stack effect is exactly len - inputs + outputs of the reflected table with StackUnderflow iff len < inputs and StackOverflow iff the result would exceed 1024. '
                'Frame machine (pc, Gas::record_cost of Model/Gas.v, stack length): n continuing steps from gas g imply n <= g (at most g + 1 fetches per frame), remaining gas in [0, g - n], '
                'stack length in [0, 1024], pc inside the buffer. Every run of the correspondence stream is additionally checked in Coq: not panicked, defined result class, '
                'gas_used <= gas_limit, every step charged >= 1 gas and at least the table bound of its opcode, steps per frame <= frame gas limit + 1, recorded pcs of short codes form a run of '
                'the model and are instruction starts < len + 33.',
     level_note='Trusted: Coq kernel + vm_compute; the reflector/driver harness/src/p_c25.rs (one instruction dispatched the way the crate-private Interpreter::step does; observing Inspector); '
                'the hook in /repo (commit d4e24c9b) and rustc debug assertions as runtime monitors. The control-flow model is hand-written; it is tied to the code by the reflected tables '
                '(exhaustive) and by sampled runs (recorded program counters are accepted by the model), not by a refinement proof. No axioms.',
     modelled=['the data side of every instruction is abstracted (an instruction that is neither a jump nor terminating "continues at pc + 1 + immediate or stops")',
               'the lower bound of the gas charged by an opcode is the minimum over 4 executed operand profiles (zero operands, 1 KiB of memory, warm slots); that the charge in every other state is '
               'at least this bound is checked on every step of every generated run, not proved',
               'sub-calls: the parent frame is charged at least the base cost and gets back at most what it handed over (C09/C13); frames are considered one at a time',
               'pointer arithmetic is modelled as integer offsets from the start of the buffer'],
     partial='UB-freedom of the unsafe blocks (raw-pointer reads in step/push/jump, pop_unsafe, set_len, SharedMemory slices) is NOT proved: the theorems are about the integer model; '
             'for the real pointers the evidence is runtime only (hook assertion before every fetch, debug assertions, assume!/unreachable! and overflow panics caught on ~2400 programs per quick run); '
             'no address sanitizer / Miri run (not available offline). The memory buffer (SharedMemory resize / slice bounds) is covered by C11, not here; only "memory length is a multiple of 32" and '
             'out-of-gas on huge offsets are observed. EOF: no theorem here (validated containers are executed under OSAKA with per-step checks: pc on an instruction start of the current section, '
             'return stack inside code; C26 has the validator model). "Ends with a defined outcome" is proved only as a per-frame step bound of the abstract machine; call depth (C07) and the handler are not part of the model. '
             'Optimism SpecIds not covered.',
     verdicts={1: 'the control-flow / step-cost model and the implementation disagree (jump table, recorded program counters not a run of the model, a step cheaper than the table bound, '
                  'plain and inspected runs differ, or a stale Gen table); no panic, no out-of-buffer pc, result defined and within the gas limit',
               2: 'execution panicked (hook assertion or other), or produced no defined result, or used more gas than the limit, or a continuing step charged no gas, or a frame ran more steps than its gas limit + 1, '
                  'or a program counter outside the buffer / inside push data was observed'},
     design_ref='5 (C25)')

prop(id='C08',
     title='ether is conserved by every transaction',
     coq=['Proofs/EvmEtherProofs.v', 'Props/C08.v', 'Corr/C08.v'],
     props_files=['Props/C08.v'],
     drivers=[{'name': 'c08', 'module': 'C08', 'profiles': DBG}],
     allow_axioms=['functional_extensionality_dep'],
     known_classes={10: 'C08-F13-selfdestruct-credit-overflow', 11: 'C08-fee-credit-saturates'},
     technique='Coq proof: total balance over a finite universe + ether burnt according to the journal is invariant under every operation of the journaled-state model '
               '(Model/Host.v), by induction over arbitrary histories with nested checkpoints, reverts through the C06 invariant (one ghost state per open checkpoint); '
               'transaction level by composing with the C09 settlement model; vm_compute correspondence with the real JournaledState (per-operation totals) and the real Evm '
               '(sum of all database balances before/after transact+commit, recording inspector for burns); composition with the reference interpreter of C01 '
               '(Model/Step.v, Model/Evm.v): the history that a create-free frame / call / call transaction of the interpreter issues (C01_frame_is_a_C06_history) is shown to lie '
               'inside the C08 contract by an invariant over histories (supply bound now and at every open checkpoint), Proofs/EvmEtherProofs.v',
     level_text='Machine-checked theorems (Coq 8.16.1) over ALL databases, well-formed journaled states, duplicate-free address universes covering the addresses the operations name, '
                'and ALL operation histories (16 kinds, nested checkpoint/commit/revert, balances up to 2^256-1) within the C06 contract plus "the creator holds the endowment" and '
                '"the self-destruct beneficiary does not overflow": transfer conserves the total in all three outcomes (done, OutOfFunds, OverflowPayment = repaired F1), '
                'create_account_checkpoint in all three outcomes, every other non-self-destruct operation leaves every balance alone, revert restores every balance (corollary of C06, '
                'even after a wrapped credit), self-destruct to another account conserves (exactly 2^256 wei vanish when the credit wraps: F13, refuted-witness theorem), self-destruct to '
                'itself removes exactly the contract balance iff the account is deleted (created in this transaction or pre-CANCUN); hence total after = total before - ether burnt '
                'by the unreverted self-destructs-to-self recorded in the journal, for every history and for every tree of frame events of Model/Frames.v (make_call_frame / '
                'make_create_frame / returns; the endowment check of make_create_frame discharges the create hypothesis); and for deduct_caller + frames + reimburse_caller + reward_beneficiary with the '
                'C09 amounts: total after = total before - basefee*gas_used (LONDON+) - blob fee - burnt - (tip*gas_used if rewards are disabled). '
                'Composition with the interpreter (no longer an un-derived hypothesis for create-free executions): for ALL worlds, programs, inputs, hardforks, fuel and well-formed '
                'start states under the supply bound SB (every duplicate-free address list sums to < 2^256), a completed frame of the create-free interpreter exec_nc (whatever it '
                'computes, the interpreter exec computes: C01) and a completed call do_call (make_call_frame, callee frames incl. nested calls, value transfers, self-destructs, '
                'reverts, call_return) act on the journaled state as a history INSIDE the C08 contract (exec_hist), keep WF and SB, and conserve: total after = total before - burnt over every universe '
                'outside of which no balance changed (such universes exist: footprint theorems); and for run_tx of Model/Evm.v on a call transaction whose first frame the '
                'create-free interpreter completes (access-list preload, deduct_caller, EIP-7702 authorisation list, first frame, last_frame_return, refund, EIP-7623 floor, '
                'reimburse_caller, reward_beneficiary): the run passes through the stations of the transaction theorem, so total after = total before - basefee*gas_used (LONDON+) - blob fee '
                '- jburn(final journal), under the validated bounds of C02/C13 and a non-saturating beneficiary credit. The model is tied to the code by '
                'executing the real JournaledState (total of the universe after every operation) and the real Evm over CacheDB (all balances summed before/after a committed '
                'transaction, FRONTIER..PRAGUE, rewards on/off), with the property\'s equation evaluated inside Coq on the observed numbers.',
     level_note='Trusted: Coq kernel + vm_compute; functional_extensionality_dep (through the C06 development); Rust harness incl. the recording inspector (frame tree, SELFDESTRUCT steps) '
                'and the wrappers around reimburse_caller / reward_beneficiary; the model-code tie is differential (sampled). The interpreter between host calls is the reference interpreter of C01 (tied to the code by the C01 correspondence run and the execution-spec vectors); '
                'for executions with CREATE / CREATE2 the frames of a transaction being operation histories within the contract is still C07 / the frame handlers (create_inner checks the endowment).',
     modelled=['see C06 (Model/Host.v); balances as Z with explicit wrap256 where ruint += / -= wrap',
               'the fee settlement is Model/Settlement.v (C09); sender <> beneficiary there',
               'deletion of self-destructed accounts at commit (CacheDB::commit) is not modelled: the theorems speak about the journaled state before finalize; in the transaction stream '
               'the residual balance of an account deleted at commit is part of the allowed burn (see assumptions)'],
     partial='derived for the interpreter: frames, calls and call transactions that issue no CREATE / CREATE2 (hypothesis: the create-free interpreter exec_nc completes; it agrees with exec) are inside the contract, '
             'from WF + the supply bound SB of the start state alone (SB replaces the per-self-destruct no-overflow hypothesis F13 and is an invariant). Still assumptions at the interpreter level: '
             'the universe contains sender, beneficiary and every address whose balance changed (existence proved, not computed); the validated bounds of C02 / C13 and the non-saturating beneficiary credit (F19) '
             'as in the station-level theorem; run_tx always rewards the beneficiary (disabled rewards only in the station-level theorem). NOT derived: executions containing CREATE / CREATE2 and create transactions '
             '- they remain covered only by the history / frame-event-tree theorems, whose contract (creator <> created address, the created address is not an account created earlier in the transaction with nonce 0 and no code, '
             'code is set once) follows from collision-freedom of the keccak address derivation, which is not available as a theorem; also missing there: the create branch of the C01 history theorem and histories '
             'independent of the growing code table (db_delegate). Optimism fee vaults are outside (C33 has its own handler)',
     assumptions=['hop_ok8 (Proofs/EtherHist.v) = C06 contract + creator holds the endowment + no overflow of the self-destruct beneficiary (F13 recorded)',
                  'interpreter-level theorems: SB (Proofs/EvmEtherProofs.v) = the balances of any duplicate-free address list sum to less than 2^256 in the start state; '
                  'without it conservation is false of the interpreter as well (Example C08_interpreter_credit_overflow_witness = F13)',
                  'interpretation: ether sent to an account after it self-destructed in the same transaction (to any beneficiary) is destroyed when the commit deletes the account, '
                  'as in the execution specification; the transaction oracle counts that residual balance as burnt by the self-destruct',
                  'cargo features optional_balance_check / optional_no_base_fee / optional_beneficiary_reward off'],
     design_ref='5 (C08), 6.5, 7 (F1, F13)')

prop(id='C01',
     title='transactions execute as the execution specification says',
     coq=['Props/C01.v', 'Corr/C01.v'],
     props_files=['Props/C01.v'],
     drivers=[{'name': 'c01', 'module': 'C01', 'profiles': DBG_ONLY},
              {'name': 'c01vec', 'module': 'C01', 'profiles': DBG_ONLY, 'needs_revme': True}],
     technique='Executable reference interpreter in Gallina (Model/Step.v: every legacy opcode; Model/Evm.v: frames by recursion on fuel, CREATE/CREATE2 '
               'address derivation with the executable keccak256, EIP-7702 authorisations, access lists, fee settlement) assembled from the component models '
               'of C02-C07, C09, C11-C14, C34 and the EIP opcode table of C05; Coq theorems about the composed interpreter; differential execution against '
               'the real Evm on generated transactions evaluated inside Coq (vm_compute); the shipped official execution-spec state vectors through '
               'revme statetest',
     level_text='Machine-checked theorems (Coq 8.16.1) about the composed interpreter, for every world, program, hardfork and state: results do not depend on '
                'fuel; every continuing instruction consumes >= 1 gas; CALL/CREATE hand over strictly less than the frame has (stipend included); every frame '
                'and every transaction terminates within fuel = gas + 1 through arbitrary nesting of calls and creates; a frame hands back no more gas than '
                'it was given; the program counter stays inside the padded code and moves only to the next instruction, behind PUSH data or to a C04-valid '
                'destination; a completed frame restores the journal depth and the stack of open checkpoints (C07 lifted); the execution of a frame of the '
                'create-free fragment is a history of journaled-state operations inside the C06 contract, hence a child frame that does not end ok leaves the '
                'caller with the observation it had at the checkpoint (C06 lifted, partial). Tie (a): the interpreter is '
                'evaluated inside Coq on every generated case (FRONTIER..PRAGUE, five transaction types, nested calls/creates, reverts, refunds, '
                'self-destructs, access lists, blobs, EIP-7702) and compared with the real Evm on outcome class, success / halt reason, gas_used, gas_refunded, output, created '
                'address, logs and every account of the returned state (balance, nonce, code hash, status flags, storage). Tie (b): every shipped '
                'execution-spec vector file is run through revme statetest (post-state root and logs hash against the official expectation).',
     level_note='There is no formal execution specification in this sandbox: "equals the specification" is NOT a Coq theorem. The chain is: official vectors '
                '= revm (tie b, on the shipped inputs); revm = Gallina interpreter (tie a, sampled, evaluated by vm_compute); theorems hold for the Gallina '
                'interpreter on all inputs. The verdict-2 oracle of tie (a) is only the independent consistency facts (ether conservation of observed '
                'pre/post balances, gas bounds); a semantic deviation that keeps those shows as verdict 1 (correspondence broken). No axioms.',
     modelled=['the whole interpreter is a hand transcription of crates/interpreter + crates/revm handler code (one Gallina function per Rust function, same order of checks)',
               'precompile results are an oracle table recorded from the implementation per case (their correctness is C23)',
               'the database is the CacheDB<EmptyDB> of the harness: account / storage maps, has_storage = a non-zero cached slot, block_hash(n) = keccak256(decimal n)',
               'code identities are keccak256 hashes computed by the executable Base/Keccak.v; logs are kept in an append-only table indexed from Host.v log identities',
               'gas_used of a precompile is taken as non-negative (u64)'],
     partial='Proof is about the model, not about the Rust code or the official specification. Model coverage: all legacy opcodes 0x00-0xff of '
             'FRONTIER..PRAGUE (OSAKA/EOF excluded as the property says; EOF-only bytes halt as in legacy code), all five transaction types; transactions '
             'rejected by validation are skipped by the driver (C02 covers them); cases above 4000 instructions / 16 KiB memory are skipped (cost of '
             'evaluation inside Coq). The lift of C06 is partial '
             '(C01_failed_child_restores_view_partial): create-free fragment (exec_nc; CREATE/CREATE2 inside the child are outside the statement) and the case '
             'where the call opens a child frame; C07\'s depth restoration is lifted for the full interpreter. The vector tie needs an already built revme '
             'binary (see trusted_base).',
     trusted_base=['revme statetest runner (bins/revme) built from /repo with `cargo build -p revme --profile ethtests` into harness/target-revme; '
                   'the c01vec driver only runs the binary (REVME_BIN or $VERIF_ROOT/harness/target-revme/ethtests/revme) and reports a missing binary as a failing case'],
     assumptions=['4 pectra-devnet-5 vectors prague/eip7702_set_code_tx/set_code_txs/ext_code_on_{set_code, self_set_code, self_delegating_set_code, '
                  'chain_delegating_set_code}.json are superseded by the final EIP-7702 text and excluded from the verdict (they expect EXTCODESIZE / EXTCODEHASH / '
                  'EXTCODECOPY of a delegated account to act on the 2-byte marker 0xef01; the final Prague text makes them act on the 23-byte designator, '
                  'which is what revm and the Gallina interpreter do: revm\'s answer equals the final text). They are still run and listed '
                  '(tag vector:superseded-eip7702-draft).',
                  'the 7 intentionally emptied vector files (/root/.vp/EMPTIED_FILES.txt) are skipped'],
     design_ref='5 (C01)')

HOOK_COMMITS = ['d4e24c9b']
# properties whose thorough tier (10x cases, release profile where listed, coqchk -o) was run to the end on the
# unchanged tree in this development; the others register the quick command only (an unvalidated
# long command is not offered as a check)
THOROUGH_OK = {'C01', 'C02', 'C03', 'C04', 'C05', 'C06', 'C07', 'C08', 'C09', 'C10', 'C13', 'C14', 'C15', 'C16', 'C17', 'C18',
               'C19', 'C20', 'C21', 'C22', 'C24', 'C26', 'C27', 'C28', 'C29', 'C30', 'C31', 'C32', 'C34'}
# not validated to the end in the time available (runs exceeded the 40 minute cap on the shared machine, or were
# disturbed by a concurrent run): C11, C12, C23, C25, C33 - their thorough tier exists (`bin/check <id> --tier thorough`)
# but is not registered

NOT_CLAIMED = {}
