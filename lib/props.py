"""Per-property configuration. One entry per claimed property; bin/mkmanifest derives
MANIFEST.json from it."""

DBG = {'quick': ['debug'], 'thorough': ['debug', 'release']}
DBG_ONLY = {'quick': ['debug'], 'thorough': ['debug']}

PROPS = {}

def prop(**kw):
    PROPS[kw['id']] = kw

prop(id='C13',
     title='gas meter',
     coq=['Props/C13.v', 'Corr/C13.v'],
     props_files=['Props/C13.v'],
     drivers=[{'name': 'c13', 'module': 'C13', 'profiles': DBG}],
     technique='Coq proof: invariant by induction over gas-operation histories (Model/Gas.v) + vm_compute correspondence with revm_interpreter::Gas',
     level_text='Machine-checked theorems (Coq 8.16.1) over all u64/i64 arguments and all operation histories within the frame-accounting '
                'contract: remaining in [0,limit], limit constant, failed charge = no change, successful charge exact, spent = limit-remaining, '
                'final refund = min(refund, spent/q). The model (one Gallina function per Gas method, overflow points explicit) is tied to the '
                'code by executing the real Gas on generated histories and evaluating model + specification oracle inside Coq on the same histories.',
     level_note='Trusted: Coq kernel + vm_compute; Rust harness; the model-code tie is differential (sampled), the theorems are universal over the model. '
                'No axioms (closed under the global context).',
     modelled=['u64/i64 machine arithmetic of rustc (wrap in release, panic in debug) is written into the model by hand'],
     design_ref='5 (C13)')

HOOK_COMMITS = []
NOT_CLAIMED = {}
